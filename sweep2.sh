#!/bin/bash
# Thorough tier of the checks whose thorough tier changed most recently (used through `vp run`).
export VERIF_REPO="${VP_RUN_REPO:-/repo}"
for c in C01 C14 C13 C11; do
  echo "=== $c thorough"; /usr/bin/time -f "%es" ./run.sh $c thorough 2>&1 | grep -E "^C[0-9]+ tier|VIOLATION|signature|what|MACHINERY|KNOWN|^[0-9.]+s$|died" | cut -c1-400 | head -40
done
