#!/bin/bash
# Runs the thorough tier of every check in sequence (used through `vp run --with-repo`).
export VERIF_REPO="${VP_RUN_REPO:-/repo}"
for c in C02 C04 C12 C15 C10 C09 C17 C07 C13 C05 C14 C18 C19 C16 C08 C06 C11 C03 C01; do
  echo "=== $c thorough"; /usr/bin/time -f "%es" ./run.sh $c thorough 2>&1 | grep -E "^C[0-9]+ tier|VIOLATION|signature|what|MACHINERY|KNOWN|^[0-9.]+s$|died" | cut -c1-400 | head -40
done
