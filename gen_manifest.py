#!/usr/bin/env python3
# Regenerates MANIFEST.json from the table below (kept in one place so the manifest is always valid).
import json, subprocess
HOOK_COMMITS = subprocess.run(["git","-C","/repo","log","--format=%H","--grep=^verif:"],capture_output=True,text=True).stdout.split()
CHECKS = {
 "C01": dict(technique="bounded exhaustive input enumeration (token strings, typed-operand matrix, ladders, run histories) executed on the real VM in journaled worker processes",
             text="Every input of the stated finite spaces (all token strings up to a length bound, every operand slot x value kind, nesting/length/size ladders, all ordered pairs of state-leaving programs) x configurations is executed through the whole public observation sequence; any Go panic, fatal runtime error, OOM or watchdog hang is attributed to its exact input. Exhaustive within the stated bounds, nothing sampled.",
             note="Trusted: the worker/journal process model, the 60 s per-case watchdog and 3 GiB address-space limit as the definition of hang / memory exhaustion; inputs outside the alphabets and length bounds are not covered.", ref="DESIGN.md §4 C01"),
 "C04": dict(technique="choice-prefix DFS over every die face (VerifRoll seam) on the real VM and exported Roll* functions, against independent rule functions",
             text="For every parameter tuple of the bounded grid, ALL face sequences are enumerated (exploding pools: all sequences within a choice-point bound, then default faces) and each execution is compared with an independent restatement of the game rule and with the dice it displays; illegal tuples must error.",
             note="Faces are answered by the harness, so the generator's word-to-face arithmetic is out of scope here (C05). Grid bounds: X<=4,Y<=4 quick / X<=5,Y<=6 thorough; pools <=3 with <=7/9 choice points; large pools deviation-bounded.", ref="DESIGN.md §4 C04"),
 "C15": dict(technique="choice-prefix DFS computing the complete random outcome set of each expression, compared with min-mode and max-mode runs",
             text="For every expression of the bounded family the set of all random outcomes is enumerated exhaustively and must lie between the min-mode and max-mode results, which must draw no randomness; plain XdY terms must attain both bounds.",
             note="Expression family bounded (X<=3,Y<=4 quick); WoD/DC outside the property's quantifier.", ref="DESIGN.md §4 C15"),
 "C12": dict(technique="explicit-state BFS of ValueMap's internal states to closure + preemption-bounded schedule enumeration under a cooperative scheduler (sync shim overlay) with brute-force linearizability checking",
             text="Sequential: every reachable canonical internal state of the real ValueMap (3 keys x 2 values) is visited and every operation is compared with a plain map in every state (closure, not a depth bound). Concurrent: every schedule with <= 2-3 preemptions of 2-3 threads x 1-2 operations over 7 initial internal states, scheduling points at each mutex/atomic operation of valuemap.go; each complete call/return history must be linearizable and the quiescent contents must match a linearization.",
             note="Sequentially consistent interleavings at mutex/atomic granularity (Go memory-model reorderings not modelled); Range/Length overlapping writers held to sync.Map's documented weak contract; the shim is trusted to behave like sync when no scheduler is installed.", ref="DESIGN.md §4 C12"),
 "C16": dict(technique="bounded exhaustive token-string enumeration x full flag cube; oracle on compiled listings (incl. nested bodies) and on every dispatched instruction (VerifStep)",
             text="Every token string up to length 3 (thorough 4) over the gating alphabet under all 2^4 family settings x statement/NDice/bitwise flags, plus macro-then-probe run sequences: neither the compiled code of the program and of every nested body nor any instruction dispatched at any sub-VM depth may belong to a disabled family unless the input carries the enabling macro; the VM configuration must be unchanged by every run.",
             note="Inputs longer than the bound and identifiers outside the alphabet are not covered; opcode-to-family table is restated in the check.", ref="DESIGN.md §4 C16"),
 "C19": dict(technique="bounded exhaustive enumeration of rejected inputs x languages with an independent position/format oracle; cross-VM part by preemption-bounded schedule enumeration at hooked Parse points",
             text="Every token string up to length 3 (thorough 4) over the error alphabet, also behind multi-line / long-line / multi-byte prefixes, x 3 languages: each rejection's text is parsed and its offset, line, column, quoted line, caret and language are recomputed from the bytes. 2-3 VMs with different languages are run under every schedule (<=2 preemptions) at Parse-entry / before-grammar / shared-selector points and must reproduce their isolated messages.",
             note="Known findings (grammar/generator level, recorded in known_findings.jsonl): rule-specific messages ignore the language; an error located at a newline is reported as (next line, col 0).", ref="DESIGN.md §4 C19"),
 "C18": dict(technique="bounded exhaustive enumeration of edit lists x spellings against the list being printed (reference model = the edit list itself)",
             text="Every list of k<=2 edits (k=3 over a reduced alphabet) in every accepted spelling (8 name shapes x 6 value shapes x ':'/'='/direct x multiplier forms x computed x 4 list separators x with/without reason text) is run through the real st command; the callback log must equal the generated list exactly and RestInput must be exactly the reason.",
             note="Spelling alphabet is finite (names/values listed in c18.go); one grammar quirk is a known finding (parenthesised value followed by a computed edit).", ref="DESIGN.md §4 C18"),
 "C13": dict(technique="bounded exhaustive enumeration of texts x delimiter styles and of template segment sequences, with a differential hole-value oracle on a second VM",
             text="Every text up to 4 (thorough 5) symbols over a 14-symbol alphabet rich in quotes, backslashes, braces, CR/LF/TAB, CJK and 0x1E, in each of the 4 delimiter styles where the documented escapes can spell it, must evaluate to exactly that text. Every template of <=2 (thorough 3) segments over 5 literal texts and 21 hole programs x 2 hole styles x 2 delimiters, all hole/literal/hole shapes and nesting ladders 1..24 must equal the concatenation of the literal texts and the string forms of hole values computed by evaluating each hole program alone, in order, on a second VM; variables must agree.",
             note="Texts longer than the bound / symbols outside the alphabet are not covered; hole value semantics is taken from evaluating the hole alone (differential), with block-ending holes contributing ''.", ref="DESIGN.md §4 C13"),
 "C03": dict(technique="bounded exhaustive enumeration of <valid program><separator><broken tail> inputs and token strings with a differential re-execution oracle (Matched alone, same prior state, same die answers)",
             text="Every combination of 100 construct-covering programs x 5 separators x 78 tails that begin like a literal/call/index/block/operator and break off, plus every token string of <=3 tokens, under family-on and family-off configurations: Matched+RestInput must be the input and re-evaluating Matched alone (dice answered identically through VerifRoll) must reproduce value, variables, st callbacks, dice count, detail text and the executed instruction sequence with empty rest.",
             note="Detail texts containing a dict rendering are compared modulo permutation (Go map order); neutralised 'nop' instructions are ignored in the instruction comparison; pools and tails are finite lists in c03.go.", ref="DESIGN.md §4 C03"),
 "C08": dict(technique="explicit-state exploration of an abstract stack machine over every compiled code array (both outcomes of every conditional jump), bound to the implementation by concrete-trace containment (VerifStep)",
             text="For every accepted input of the enumerated families the main code and all nested bodies are explored exhaustively in an abstract domain (pc, stack height, saved block/template heights, dice/annotation/wod/dc state) and the well-formedness invariants are checked in every reachable abstract state, i.e. on every path rather than the path taken. Every program is then executed and each concrete VM state at every instruction boundary and sub-VM depth must lie inside the abstract reachable set, which validates the model's transfer table against rollvm.go on ~90k traces per quick run.",
             note="Heights >= 96 / detail counts >= 3 merged; transfer table restated from rollvm.go (mismatch = machinery error); zero-offset unpatched jumps are indistinguishable from legitimate zero offsets. Known finding: index/attribute/slice assignment accepted as a value.", ref="DESIGN.md §4 C08"),
 "C05": dict(technique="complete enumeration of all 2^32 generator words through the real 32-bit face function; windowed enumeration of 64-bit words against an independent re-implementation; seeded VM streams vs an independent PCG",
             text="For each listed n every one of the 2^32 generator words is driven through the real _roll32 (a PCG state whose next output is the word is constructed by inverting one LCG step) and the face histogram must be exactly flat with exactly the necessary rejections; the 64-bit path is compared word-for-word (face and words consumed) with an independent implementation on all words of the stated windows; whole seeded VM rolls must reproduce the faces and final state of the independent reference stream.",
             note="The generator's statistical quality is trusted (library). 64-bit words outside the windows are not enumerated; quick covers 8 values of n, thorough ~140.", ref="DESIGN.md §4 C05"),
 "C06": dict(technique="choice-prefix DFS over interference placements at every instruction boundary (VerifStep) + provenance of every draw (VerifRoll) + resume at every statement split",
             text="For every program of a pool covering each randomness-reaching construct x seeds, every placement of <=2 interfering actions on other contexts / the process-wide generators at every instruction boundary of every sub-VM is executed and must leave value, detail text, draw count and final generator state unchanged; every draw must come from the context's own generator; re-seeding the process-wide generators must not matter; capture/install of the generator state must continue the identical sequence at every split of every statement list.",
             note="Program pool and interfering-action alphabet are finite lists in c06.go; interference is injected at instruction boundaries (not inside an instruction).", ref="DESIGN.md §4 C06"),
 "C14": dict(technique="choice-prefix DFS over every die face of every expression of a bounded family; independent parser/evaluator of the process text",
             text="For every expression of <=3 terms over 21 term kinds (every dice family, nested/chained dice, variables incl. a multi-byte name, a computed dice variable) with + - *, parentheses, unary minus and 5 spacing variants incl. line breaks, every face sequence is executed: the text minus annotations must be the source with rolls replaced by rule-computed values and must evaluate to the result; each annotation must name its term and list exactly the faces drawn; requesting the text twice must be idempotent and change nothing (result, variables, generator state, draws).",
             note="Faces beyond the 6th (thorough 10th) die default to 1; D100 takes 8 representative faces; the annotation grammar accepted by the oracle is restated in c14.go.", ref="DESIGN.md §4 C14"),
}
PENDING = {}
def main():
    props=[json.loads(l) for l in open("/verif/properties.jsonl")]
    checks=[]; na=[]
    for p in props:
        i=p["id"]
        if i in CHECKS:
            c=CHECKS[i]
            checks.append({"property_id":i,"quick_cmd":f"./run.sh {i} quick","thorough_cmd":f"./run.sh {i} thorough",
              "evidence_file":f"/verif/evidence/{i}.json","replay_cmd_template":f"./run.sh {i} --replay {{path}}","engine":"mc/check",
              "level_claimed":{"category":c.get("category","model_checking"),"text":c["text"],"design_ref":c["ref"]},
              "level_note":c["note"],"technique":c["technique"]})
        else:
            na.append({"property_id":i,"reason":PENDING.get(i,"check not built yet in this round; design in DESIGN.md §4 (to be claimed once the check exists and is quiet on the unchanged tree)")})
    m={"version":1,"setup_cmd":"./run.sh --setup",
       "hooks":{"guard":"verif","enable":"go build -tags verif (done by ./run.sh for every check)",
                "baseline_off_cmd":"cd /repo && GOFLAGS=-mod=mod GOPROXY=off GOSUMDB=off go test -vet=off -count=1 ./...",
                "source_commits":HOOK_COMMITS,"add_only":True},
       "engines":[{"name":"mc/check","path":"/verif/mc","serves_properties":[c["property_id"] for c in checks],
                   "kind_free_text":"hand-rolled bounded-exhaustive explorers in Go (input/program enumeration, die-outcome choice DFS, explicit-state BFS, cooperative scheduler DFS) driving the real dicescript code"}],
       "checks":checks,"not_applicable":na,
       "notes":"All checks rebuild the harness against /repo's working tree with -tags verif via run.sh. Known findings: /verif/known_findings.jsonl."}
    json.dump(m,open("/verif/MANIFEST.json","w"),indent=1,ensure_ascii=False)
main()
