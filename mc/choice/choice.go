// Package choice is the stateless choice-prefix DFS (E3): the body is re-run
// once per complete sequence of environment answers; the first run answers 0
// everywhere, later runs replay a prefix and deviate at its last point.
package choice

// Ctx is handed to the body; Choose(n) returns an answer in [0,n).
type Ctx struct {
	path    []int // answers for this run (prefix replayed, then extended)
	arity   []int
	pos     int
	MaxPts  int  // beyond this many choice points the default answer 0 is forced (0 = unlimited)
	Forced  bool // some point of this run was forced to the default
	MaxDev  int  // maximum number of non-default answers per run (<0 = unlimited)
	diverge bool
}

func (c *Ctx) Choose(n int) int {
	if n <= 1 {
		return 0
	}
	if c.MaxPts > 0 && c.pos >= c.MaxPts {
		c.Forced = true
		return 0
	}
	if c.pos < len(c.path) {
		a := c.path[c.pos]
		if c.arity[c.pos] != n || a >= n {
			c.diverge = true
			a = 0
		}
		c.pos++
		return a
	}
	c.path = append(c.path, 0)
	c.arity = append(c.arity, n)
	c.pos++
	return 0
}

// Answers returns the answers consumed by the current run.
func (c *Ctx) Answers() []int { return c.path[:c.pos] }

// Stats of an exploration.
type Stats struct {
	Runs      int64
	Forced    int64 // runs in which some point was forced (space truncated there)
	Diverged  int64 // replay divergence (nondeterministic body): hard machinery error
	MaxPoints int
}

// Explore runs body for every answer sequence (bounded by maxPts / maxDev).
func Explore(maxPts, maxDev int, body func(c *Ctx)) Stats {
	var st Stats
	c := &Ctx{MaxPts: maxPts, MaxDev: maxDev}
	for {
		c.pos = 0
		c.Forced = false
		c.diverge = false
		body(c)
		st.Runs++
		if c.Forced {
			st.Forced++
		}
		if c.diverge {
			st.Diverged++
		}
		if c.pos > st.MaxPoints {
			st.MaxPoints = c.pos
		}
		// truncate to what this run consumed, then advance like an odometer
		c.path = c.path[:c.pos]
		c.arity = c.arity[:c.pos]
		i := len(c.path) - 1
		for i >= 0 {
			if c.path[i]+1 < c.arity[i] {
				if maxDev >= 0 {
					dev := 0
					for j := 0; j < i; j++ {
						if c.path[j] != 0 {
							dev++
						}
					}
					if dev+1 > maxDev {
						i--
						continue
					}
				}
				c.path[i]++
				c.path = c.path[:i+1]
				c.arity = c.arity[:i+1]
				break
			}
			i--
		}
		if i < 0 {
			return st
		}
	}
}
