// Package sched is the cooperative scheduler + preemption-bounded DFS (E4).
// Thread bodies are ordinary functions run on goroutines that hold a baton:
// exactly one runs at a time; Point() hands the baton back to the scheduler,
// which picks the next thread according to the schedule being explored.
package sched

import (
	"fmt"
)

type thread struct {
	id       int
	resume   chan struct{}
	done     bool
	blocked  any // non-nil: waiting for this object to be released
	started  bool
	panicked any
}

// Exec is one execution under a given choice prefix.
type Exec struct {
	threads []*thread
	yield   chan int // thread id that yielded / finished
	cur     int
	prefix  []int
	Choices []int
	Points  []PointInfo
	Dead    bool // deadlock: unfinished threads, none enabled
	Diverge bool
	MaxPts  int
	Cut     bool // execution exceeded MaxPts scheduling points
	lastKind string
}

type PointInfo struct {
	Enabled        int
	RunningEnabled bool
	Kind           string
}

// Point is called by the running thread before a synchronisation operation.
func (e *Exec) Point(kind string) {
	t := e.threads[e.cur]
	e.lastKind = kind
	e.yield <- t.id
	<-t.resume
}

func (e *Exec) BlockOnObj(obj any) {
	t := e.threads[e.cur]
	t.blocked = obj
	e.lastKind = "blocked"
	e.yield <- t.id
	<-t.resume
}

func (e *Exec) ReleasedObj(obj any) {
	for _, t := range e.threads {
		if t.blocked == obj {
			t.blocked = nil
		}
	}
}

// Cur is the id of the running thread.
func (e *Exec) Cur() int { return e.cur }

func (e *Exec) enabled() []int {
	var out []int
	// canonical order: running thread first if still enabled, then ascending ids
	if e.cur >= 0 {
		t := e.threads[e.cur]
		if !t.done && t.blocked == nil {
			out = append(out, t.id)
		}
	}
	for _, t := range e.threads {
		if t.id != e.cur && !t.done && t.blocked == nil {
			out = append(out, t.id)
		}
	}
	return out
}

func (e *Exec) lastKindGet() string { return e.lastKind }

// run executes the bodies under the prefix; afterwards every choice is 0.
func run(bodies []func(), prefix []int, maxPts int, install func(e *Exec), uninstall func()) *Exec {
	e := &Exec{yield: make(chan int), prefix: prefix, cur: -1, MaxPts: maxPts}
	for i := range bodies {
		e.threads = append(e.threads, &thread{id: i, resume: make(chan struct{})})
	}
	install(e)
	defer uninstall()
	for i, b := range bodies {
		t := e.threads[i]
		body := b
		go func() {
			<-t.resume
			defer func() {
				if r := recover(); r != nil {
					t.panicked = r
				}
				t.done = true
				e.yield <- t.id
			}()
			body()
		}()
	}
	for {
		en := e.enabled()
		if len(en) == 0 {
			for _, t := range e.threads {
				if !t.done {
					e.Dead = true
				}
			}
			break
		}
		runningEnabled := e.cur >= 0 && len(en) > 0 && en[0] == e.cur
		choice := 0
		k := len(e.Choices)
		if k < len(prefix) {
			choice = prefix[k]
			if choice >= len(en) {
				e.Diverge = true
				choice = 0
			}
		}
		if maxPts > 0 && k >= maxPts {
			e.Cut = true
			choice = 0
		}
		e.Choices = append(e.Choices, choice)
		e.Points = append(e.Points, PointInfo{Enabled: len(en), RunningEnabled: runningEnabled, Kind: e.lastKind})
		e.cur = en[choice]
		t := e.threads[e.cur]
		t.resume <- struct{}{}
		<-e.yield
	}
	return e
}

// Panics returns the panics raised by thread bodies.
func (e *Exec) Panics() []string {
	var out []string
	for _, t := range e.threads {
		if t.panicked != nil {
			out = append(out, fmt.Sprintf("thread %d: %v", t.id, t.panicked))
		}
	}
	return out
}

// Stats of an exploration.
type Stats struct {
	Schedules   int64
	Points      int64
	Deadlocks   int64
	Diverged    int64
	Cut         int64
	BoundDone   int // largest preemption bound completed
}

// Explore enumerates every schedule with at most `bound` preemptions (bound<0:
// unbounded). mk must build fresh thread bodies (and fresh shared state) for
// every execution; check is called after each complete execution.
func Explore(bound, maxPts int, mk func() []func(), install func(e *Exec), uninstall func(), check func(e *Exec)) Stats {
	var st Stats
	var rec func(prefix []int)
	rec = func(prefix []int) {
		e := run(mk(), prefix, maxPts, install, uninstall)
		st.Schedules++
		st.Points += int64(len(e.Points))
		if e.Dead {
			st.Deadlocks++
		}
		if e.Diverge {
			st.Diverged++
		}
		if e.Cut {
			st.Cut++
		}
		check(e)
		pre := 0
		for i := 0; i < len(e.Points); i++ {
			p := e.Points[i]
			if i >= len(prefix) && !(maxPts > 0 && i >= maxPts) {
				cost := pre
				if p.RunningEnabled {
					cost++
				}
				if bound < 0 || cost <= bound {
					for alt := 1; alt < p.Enabled; alt++ {
						np := append(append([]int{}, e.Choices[:i]...), alt)
						rec(np)
					}
				}
			}
			if p.RunningEnabled && e.Choices[i] != 0 {
				pre++
			}
		}
	}
	rec(nil)
	st.BoundDone = bound
	return st
}

// Replay runs one recorded schedule.
func Replay(schedule []int, maxPts int, mk func() []func(), install func(e *Exec), uninstall func()) *Exec {
	return run(mk(), schedule, maxPts, install, uninstall)
}
