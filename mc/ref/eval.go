package ref

import (
	"errors"
	"fmt"
	"math"
	"sort"
	"strconv"
	"strings"
)

// Value kinds of the reference.
const (
	VInt = iota
	VFloat
	VStr
	VNull
	VArr
	VDict
	VFunc
	VNative
	VComputed
)

type Val struct {
	T    int
	I    int64
	F    float64
	S    string
	Arr  *ArrV
	Dict *DictV
	Fn   *FuncV
	Nat  *NativeV
	Comp *CompV
}

type ArrV struct{ L []Val }
type DictV struct {
	M map[string]Val
}
type FuncV struct {
	Name   string
	Params []string
	Body   []*Node
	Text   string
}
type NativeV struct {
	Name string
	Self *Val // bound method receiver
}
type CompV struct {
	Expr  *Node
	Text  string
	Attrs *Scope
}

func VI(i int64) Val   { return Val{T: VInt, I: i} }
func VF(f float64) Val { return Val{T: VFloat, F: f} }
func VS(s string) Val  { return Val{T: VStr, S: s} }
func VN() Val          { return Val{T: VNull} }

var ErrRun = errors.New("runtime error")

type errT struct{ msg string }

func (e errT) Error() string { return e.msg }
func fail(format string, a ...any) error {
	return errT{fmt.Sprintf(format, a...)}
}

// control-flow signals
type brk struct{}
type cont struct{}
type ret struct{ v Val }

// Scope is one variable scope (a VM's Attrs).
type Scope struct {
	Vars map[string]Val
}

func NewScope() *Scope { return &Scope{Vars: map[string]Val{}} }

// Frame is an evaluation context (a VM): its scope and the caller chain.
type Frame struct {
	Scope *Scope
	Up    *Frame
	Tpl   int // template nesting (blocks yield '' inside a template)
}

// Interp carries configuration and budgets.
type Interp struct {
	IgnoreDiv0 bool
	DiceMode   int // -1 min, 1 max (0: dice are outside the reference's domain)
	Steps      int
	MaxSteps   int
	Depth      int
	P          Printer
}

func (it *Interp) tick() error {
	it.Steps++
	if it.MaxSteps > 0 && it.Steps > it.MaxSteps {
		return fail("reference step budget exceeded")
	}
	return nil
}

func Truthy(v Val) bool {
	switch v.T {
	case VInt:
		return v.I != 0
	case VFloat:
		return v.F != 0
	case VStr:
		return v.S != ""
	case VNull:
		return false
	case VArr:
		return len(v.Arr.L) != 0
	case VDict:
		return len(v.Dict.M) != 0
	case VComputed:
		return strings.TrimSpace(v.Comp.Text) != ""
	}
	return true
}

// ---- rendering (must agree with drv.Canon and with the language's toStr/repr)

func Canon(v Val) string {
	var sb strings.Builder
	canon(&sb, v, map[any]bool{})
	return sb.String()
}

func canon(sb *strings.Builder, v Val, seen map[any]bool) {
	switch v.T {
	case VInt:
		fmt.Fprintf(sb, "%d", v.I)
	case VFloat:
		fmt.Fprintf(sb, "f%v", v.F)
	case VStr:
		fmt.Fprintf(sb, "%q", v.S)
	case VNull:
		sb.WriteString("null")
	case VArr:
		if seen[v.Arr] {
			sb.WriteString("[...]")
			return
		}
		seen[v.Arr] = true
		sb.WriteString("[")
		for i, e := range v.Arr.L {
			if i > 0 {
				sb.WriteString(",")
			}
			canon(sb, e, seen)
		}
		sb.WriteString("]")
		delete(seen, v.Arr)
	case VDict:
		if seen[v.Dict] {
			sb.WriteString("{...}")
			return
		}
		seen[v.Dict] = true
		var ks []string
		for k := range v.Dict.M {
			ks = append(ks, k)
		}
		sort.Strings(ks)
		sb.WriteString("{")
		for i, k := range ks {
			if i > 0 {
				sb.WriteString(",")
			}
			fmt.Fprintf(sb, "%q:", k)
			canon(sb, v.Dict.M[k], seen)
		}
		sb.WriteString("}")
		delete(seen, v.Dict)
	case VFunc:
		fmt.Fprintf(sb, "func %s(%s){%s}", v.Fn.Name, strings.Join(v.Fn.Params, ","), strings.TrimSpace(v.Fn.Text))
	case VNative:
		fmt.Fprintf(sb, "nfunc %s", v.Nat.Name)
		if v.Nat.Self != nil {
			sb.WriteString(" bound")
		}
	case VComputed:
		fmt.Fprintf(sb, "&(%s)", strings.TrimSpace(v.Comp.Text))
		if v.Comp.Attrs != nil && len(v.Comp.Attrs.Vars) > 0 {
			var ks []string
			for k := range v.Comp.Attrs.Vars {
				ks = append(ks, k)
			}
			sort.Strings(ks)
			sb.WriteString("{")
			for i, k := range ks {
				if i > 0 {
					sb.WriteString(",")
				}
				fmt.Fprintf(sb, "%q:", k)
				canon(sb, v.Comp.Attrs.Vars[k], seen)
			}
			sb.WriteString("}")
		}
	}
}

func CanonScope(s *Scope) string {
	var ks []string
	for k := range s.Vars {
		ks = append(ks, k)
	}
	sort.Strings(ks)
	var sb strings.Builder
	for _, k := range ks {
		fmt.Fprintf(&sb, "%s=", k)
		canon(&sb, s.Vars[k], map[any]bool{})
		sb.WriteString(";")
	}
	return sb.String()
}

// ToStr is the language's toStr (only for kinds whose form is documented and order-free).
func ToStr(v Val) string {
	return toStr(v, map[any]bool{}, false)
}

func toStr(v Val, seen map[any]bool, repr bool) string {
	switch v.T {
	case VInt:
		return strconv.FormatInt(v.I, 10)
	case VFloat:
		return strconv.FormatFloat(v.F, 'f', -1, 64)
	case VStr:
		if repr {
			return "'" + v.S + "'"
		}
		return v.S
	case VNull:
		return "null"
	case VArr:
		if seen[v.Arr] {
			return "[...]"
		}
		seen[v.Arr] = true
		var parts []string
		for _, e := range v.Arr.L {
			parts = append(parts, toStr(e, seen, true))
		}
		return "[" + strings.Join(parts, ", ") + "]"
	case VDict:
		if seen[v.Dict] {
			return "{...}"
		}
		seen[v.Dict] = true
		var ks []string
		for k := range v.Dict.M {
			ks = append(ks, k)
		}
		sort.Strings(ks)
		var parts []string
		for _, k := range ks {
			parts = append(parts, "'"+k+"': "+toStr(v.Dict.M[k], seen, true))
		}
		return "{" + strings.Join(parts, ", ") + "}"
	case VFunc:
		return "function " + v.Fn.Name
	case VNative:
		return "nfunction " + v.Nat.Name
	case VComputed:
		return "&(" + v.Comp.Text + ")"
	}
	return "?"
}

// ---- lookup

var builtinNames = map[string]int{ // name -> arity
	"ceil": 1, "floor": 1, "round": 1, "abs": 1, "toInt": 1, "toFloat": 1, "toStr": 1, "toBool": 1, "repr": 1, "typeId": 1, "load": 1, "loadRaw": 1, "store": 2, "dir": 1,
}

// load: current scope, then each caller's scope, then builtins; a variable holding null counts as unset.
func (it *Interp) load(f *Frame, name string, raw bool) (Val, error) {
	for cur := f; cur != nil; cur = cur.Up {
		if v, ok := cur.Scope.Vars[name]; ok {
			if !raw && v.T == VComputed {
				r, err := it.computed(cur, v)
				if err != nil {
					return VN(), err
				}
				v = r
			}
			if v.T != VNull {
				return v, nil
			}
		}
	}
	if _, ok := builtinNames[name]; ok {
		return Val{T: VNative, Nat: &NativeV{Name: name}}, nil
	}
	return VN(), nil
}

func (it *Interp) computed(loader *Frame, v Val) (Val, error) {
	if err := it.tick(); err != nil {
		return VN(), err
	}
	it.Depth++
	defer func() { it.Depth-- }()
	if it.Depth > 40 {
		return VN(), fail("reference recursion depth")
	}
	if v.Comp.Attrs == nil {
		v.Comp.Attrs = NewScope()
	}
	fr := &Frame{Scope: v.Comp.Attrs, Up: loader}
	return it.Eval(fr, v.Comp.Expr)
}

// ---- evaluation

// Run evaluates a program in frame f; value = value of the last value-producing statement.
func (it *Interp) Run(f *Frame, body []*Node) (v Val, err error) {
	if f.Up == nil && loopStmtOutsideLoop(body, false) {
		return VN(), fail("break / continue outside a loop is rejected before anything runs")
	}
	defer func() {
		if r := recover(); r != nil {
			switch x := r.(type) {
			case ret:
				v, err = x.v, nil
			case brk, cont:
				err = fail("break/continue outside loop")
			default:
				panic(r)
			}
		}
	}()
	return it.stmts(f, body)
}

// loopStmtOutsideLoop: static check the parser performs (the whole program is rejected, nothing runs)
func loopStmtOutsideLoop(body []*Node, inLoop bool) bool {
	for _, s := range body {
		switch s.K {
		case KBreak, KContinue:
			if !inLoop {
				return true
			}
		case KIf:
			if loopStmtOutsideLoop(s.Body, inLoop) || loopStmtOutsideLoop(s.Else, inLoop) {
				return true
			}
		case KWhile:
			if loopStmtOutsideLoop(s.Body, true) {
				return true
			}
		case KFunc:
			if loopStmtOutsideLoop(s.Body, inLoop) {
				return true
			}
		case KTpl:
			for _, k := range s.Kids {
				if k.K == KHole && loopStmtOutsideLoop(k.Body, inLoop) {
					return true
				}
			}
		}
	}
	return false
}

// stmts: every statement leaves its value; the program / block value is the last one left.
func (it *Interp) stmts(f *Frame, body []*Node) (Val, error) {
	last := VN()
	for _, s := range body {
		v, has, err := it.stmt(f, s)
		if err != nil {
			return VN(), err
		}
		if has {
			last = v
		}
	}
	return last, nil
}

// blockVal: what an if / while statement yields
func blockVal(f *Frame) Val {
	if f.Tpl > 0 {
		return VS("")
	}
	return VN()
}

func (it *Interp) stmt(f *Frame, n *Node) (Val, bool, error) {
	if err := it.tick(); err != nil {
		return VN(), false, err
	}
	switch n.K {
	case KIf:
		c, err := it.Eval(f, n.A)
		if err != nil {
			return VN(), false, err
		}
		if Truthy(c) {
			if _, err := it.stmts(f, n.Body); err != nil {
				return VN(), false, err
			}
		} else if n.HasElse {
			if _, err := it.stmts(f, n.Else); err != nil {
				return VN(), false, err
			}
		}
		return blockVal(f), true, nil
	case KWhile:
		for {
			if err := it.tick(); err != nil {
				return VN(), false, err
			}
			c, err := it.Eval(f, n.A)
			if err != nil {
				return VN(), false, err
			}
			if !Truthy(c) {
				break
			}
			stop, err := it.loopBody(f, n.Body)
			if err != nil {
				return VN(), false, err
			}
			if stop {
				break
			}
		}
		return blockVal(f), true, nil
	case KBreak:
		panic(brk{})
	case KContinue:
		panic(cont{})
	case KReturn:
		v := VN()
		if n.A != nil {
			var err error
			v, err = it.Eval(f, n.A)
			if err != nil {
				return VN(), false, err
			}
		}
		panic(ret{v})
	case KFunc:
		fn := Val{T: VFunc, Fn: &FuncV{Name: n.S, Params: n.Params, Body: n.Body, Text: it.P.Stmts(n.Body)}}
		f.Scope.Vars[n.S] = fn
		return fn, true, nil
	case KAssignIndex, KAssignAttr, KAssignSlice, KAssignCompAttr:
		_, err := it.Eval(f, n)
		return VN(), false, err // these assignments leave no value
	}
	v, err := it.Eval(f, n)
	return v, err == nil, err
}

func (it *Interp) loopBody(f *Frame, body []*Node) (stop bool, err error) {
	defer func() {
		if r := recover(); r != nil {
			switch r.(type) {
			case brk:
				stop = true
			case cont:
			default:
				panic(r)
			}
		}
	}()
	_, err = it.stmts(f, body)
	return false, err
}

func num(v Val) (float64, bool) {
	switch v.T {
	case VInt:
		return float64(v.I), true
	case VFloat:
		return v.F, true
	}
	return 0, false
}

// Equal: structural equality of the language's ==
func Equal(a, b Val) bool {
	if a.T == b.T {
		switch a.T {
		case VInt:
			return a.I == b.I
		case VFloat:
			return a.F == b.F
		case VStr:
			return a.S == b.S
		case VNull:
			return true
		case VArr:
			if len(a.Arr.L) != len(b.Arr.L) {
				return false
			}
			for i := range a.Arr.L {
				if !Equal(a.Arr.L[i], b.Arr.L[i]) {
					return false
				}
			}
			return true
		case VDict:
			if len(a.Dict.M) != len(b.Dict.M) {
				return false
			}
			for k, v := range a.Dict.M {
				w, ok := b.Dict.M[k]
				if !ok || !Equal(v, w) {
					return false
				}
			}
			return true
		case VComputed:
			return a.Comp.Text == b.Comp.Text
		case VFunc:
			return a.Fn == b.Fn
		case VNative:
			return a.Nat.Name == b.Nat.Name
		}
		return false
	}
	if a.T == VInt && b.T == VFloat {
		return float64(a.I) == b.F
	}
	if a.T == VFloat && b.T == VInt {
		return a.F == float64(b.I)
	}
	return false
}

func boolV(b bool) Val {
	if b {
		return VI(1)
	}
	return VI(0)
}

func (it *Interp) binary(op string, a, b Val) (Val, error) {
	x, xn := num(a)
	y, yn := num(b)
	bothInt := a.T == VInt && b.T == VInt
	switch op {
	case "+":
		if bothInt {
			return VI(a.I + b.I), nil
		}
		if xn && yn {
			return VF(x + y), nil
		}
		if a.T == VStr && b.T == VStr {
			return VS(a.S + b.S), nil
		}
		if a.T == VArr && b.T == VArr {
			if len(a.Arr.L)+len(b.Arr.L) > 512 {
				return VN(), fail("array too long")
			}
			l := append(append([]Val{}, a.Arr.L...), b.Arr.L...)
			return Val{T: VArr, Arr: &ArrV{l}}, nil
		}
	case "-":
		if bothInt {
			return VI(a.I - b.I), nil
		}
		if xn && yn {
			return VF(x - y), nil
		}
	case "*":
		if bothInt {
			return VI(a.I * b.I), nil
		}
		if xn && yn {
			return VF(x * y), nil
		}
		if a.T == VArr && b.T == VInt {
			return repeat(a, b.I)
		}
		if a.T == VInt && b.T == VArr {
			return repeat(b, a.I)
		}
	case "/":
		if xn && yn {
			if y == 0 {
				if it.IgnoreDiv0 {
					return a, nil
				}
				return VN(), fail("division by zero")
			}
			if bothInt {
				return VI(a.I / b.I), nil
			}
			return VF(x / y), nil
		}
	case "%":
		if bothInt {
			if b.I == 0 {
				return VN(), fail("modulo by zero")
			}
			return VI(a.I % b.I), nil
		}
	case "^", "**":
		if xn && yn {
			if bothInt {
				return VI(int64(math.Pow(x, y))), nil
			}
			return VF(math.Pow(x, y)), nil
		}
	case "??":
		if a.T == VNull {
			return b, nil
		}
		return a, nil
	case "<", "<=", ">=", ">":
		if xn && yn {
			switch op {
			case "<":
				return boolV(x < y), nil
			case "<=":
				return boolV(x <= y), nil
			case ">=":
				return boolV(x >= y), nil
			case ">":
				return boolV(x > y), nil
			}
		}
	case "==":
		return boolV(Equal(a, b)), nil
	case "!=":
		return boolV(!Equal(a, b)), nil
	case "&":
		if bothInt {
			return VI(a.I & b.I), nil
		}
	case "|":
		if bothInt {
			return VI(a.I | b.I), nil
		}
	}
	return VN(), fail("operator %s not defined for these operands", op)
}

func repeat(a Val, n int64) (Val, error) {
	if n < 0 {
		n = 0
	}
	if len(a.Arr.L) > 0 && n > 512 || int64(len(a.Arr.L))*n > 512 {
		return VN(), fail("array too long")
	}
	var l []Val
	for i := int64(0); i < n; i++ {
		l = append(l, a.Arr.L...)
	}
	return Val{T: VArr, Arr: &ArrV{l}}, nil
}

func dictKey(v Val) (string, error) {
	switch v.T {
	case VInt, VFloat, VStr:
		return ToStr(v), nil
	}
	return "", fail("dict key must be a number or a string")
}

func realIndex(i int64, n int) (int, error) {
	if i < 0 {
		i += int64(n)
	}
	if i < 0 || i >= int64(n) {
		return 0, fail("index out of range")
	}
	return int(i), nil
}

func clampIndex(i int64, n int) int {
	if i < 0 {
		i += int64(n)
	}
	if i < 0 {
		i = 0
	}
	if i > int64(n) {
		i = int64(n)
	}
	return int(i)
}

// Eval evaluates an expression node.
func (it *Interp) Eval(f *Frame, n *Node) (Val, error) {
	if err := it.tick(); err != nil {
		return VN(), err
	}
	switch n.K {
	case KInt:
		return VI(n.I), nil
	case KFloat:
		return VF(n.F), nil
	case KStr:
		return VS(n.S), nil
	case KNull:
		return VN(), nil
	case KVar:
		return it.load(f, n.S, false)
	case KRawVar:
		return it.load(f, n.S, true)
	case KThisAttr:
		// this.x reads the current scope only
		if v, ok := f.Scope.Vars[n.S]; ok {
			if v.T == VComputed {
				return it.computed(f, v)
			}
			return v, nil
		}
		return VN(), nil
	case KArr:
		var l []Val
		for _, k := range n.Kids {
			v, err := it.Eval(f, k)
			if err != nil {
				return VN(), err
			}
			l = append(l, v)
		}
		return Val{T: VArr, Arr: &ArrV{l}}, nil
	case KRange:
		a, err := it.Eval(f, n.A)
		if err != nil {
			return VN(), err
		}
		b, err := it.Eval(f, n.B)
		if err != nil {
			return VN(), err
		}
		if a.T != VInt || b.T != VInt {
			return VN(), fail("range bounds must be integers")
		}
		d := b.I - a.I
		if d < 0 {
			d = -d
		}
		if d+1 > 512 {
			return VN(), fail("range too long")
		}
		var l []Val
		step := int64(1)
		if b.I < a.I {
			step = -1
		}
		for i := a.I; ; i += step {
			l = append(l, VI(i))
			if i == b.I {
				break
			}
		}
		return Val{T: VArr, Arr: &ArrV{l}}, nil
	case KDict:
		d := &DictV{M: map[string]Val{}}
		for i := 0; i+1 < len(n.Kids); i += 2 {
			k, err := it.Eval(f, n.Kids[i])
			if err != nil {
				return VN(), err
			}
			v, err := it.Eval(f, n.Kids[i+1])
			if err != nil {
				return VN(), err
			}
			ks, err := dictKey(k)
			if err != nil {
				return VN(), err
			}
			d.M[ks] = v
		}
		return Val{T: VDict, Dict: d}, nil
	case KTpl:
		var sb strings.Builder
		for _, k := range n.Kids {
			if k.K == KStr {
				sb.WriteString(k.S)
				continue
			}
			f.Tpl++
			v, err := it.holeValue(f, k.Body)
			f.Tpl--
			if err != nil {
				return VN(), err
			}
			sb.WriteString(ToStr(v))
		}
		return VS(sb.String()), nil
	case KUn:
		a, err := it.Eval(f, n.A)
		if err != nil {
			return VN(), err
		}
		switch a.T {
		case VInt:
			if n.Op == "-" {
				return VI(-a.I), nil
			}
			return a, nil
		case VFloat:
			if n.Op == "-" {
				return VF(-a.F), nil
			}
			return a, nil
		}
		return VN(), fail("unary operator on a non-number")
	case KBin:
		switch n.Op {
		case "||":
			a, err := it.Eval(f, n.A)
			if err != nil {
				return VN(), err
			}
			if Truthy(a) {
				return a, nil
			}
			return it.Eval(f, n.B)
		case "&&":
			a, err := it.Eval(f, n.A)
			if err != nil {
				return VN(), err
			}
			b, err := it.Eval(f, n.B) // both sides are evaluated
			if err != nil {
				return VN(), err
			}
			if !Truthy(a) {
				return a, nil
			}
			return b, nil
		}
		a, err := it.Eval(f, n.A)
		if err != nil {
			return VN(), err
		}
		b, err := it.Eval(f, n.B)
		if err != nil {
			return VN(), err
		}
		return it.binary(n.Op, a, b)
	case KTern:
		c, err := it.Eval(f, n.A)
		if err != nil {
			return VN(), err
		}
		if Truthy(c) {
			return it.Eval(f, n.B)
		}
		return it.Eval(f, n.C)
	case KTern2:
		for i := 0; i+1 < len(n.Kids); i += 2 {
			c, err := it.Eval(f, n.Kids[i])
			if err != nil {
				return VN(), err
			}
			if Truthy(c) {
				return it.Eval(f, n.Kids[i+1])
			}
		}
		return VS(""), nil
	case KCall:
		fv, err := it.Eval(f, n.A)
		if err != nil {
			return VN(), err
		}
		var args []Val
		for _, k := range n.Kids {
			v, err := it.Eval(f, k)
			if err != nil {
				return VN(), err
			}
			args = append(args, v)
		}
		return it.call(f, fv, args)
	case KIndex:
		a, err := it.Eval(f, n.A)
		if err != nil {
			return VN(), err
		}
		i, err := it.Eval(f, n.B)
		if err != nil {
			return VN(), err
		}
		return index(a, i)
	case KSlice:
		a, err := it.Eval(f, n.A)
		if err != nil {
			return VN(), err
		}
		lo, hi, err := it.sliceBounds(f, n.B, n.C, a)
		if err != nil {
			return VN(), err
		}
		switch a.T {
		case VStr:
			r := []rune(a.S)
			return VS(string(r[lo:hi])), nil
		case VArr:
			return Val{T: VArr, Arr: &ArrV{append([]Val{}, a.Arr.L[lo:hi]...)}}, nil
		}
		return VN(), fail("cannot slice this value")
	case KAttr:
		a, err := it.Eval(f, n.A)
		if err != nil {
			return VN(), err
		}
		return it.attr(a, n.S)
	case KMethod:
		a, err := it.Eval(f, n.A)
		if err != nil {
			return VN(), err
		}
		m, err := it.attr(a, n.S)
		if err != nil {
			return VN(), err
		}
		var args []Val
		for _, k := range n.Kids {
			v, err := it.Eval(f, k)
			if err != nil {
				return VN(), err
			}
			args = append(args, v)
		}
		return it.call(f, m, args)
	case KDice:
		return it.dice(n)
	case KAssign:
		v, err := it.Eval(f, n.A)
		if err != nil {
			return VN(), err
		}
		f.Scope.Vars[n.S] = v
		return v, nil
	case KAssignThis:
		v, err := it.Eval(f, n.A)
		if err != nil {
			return VN(), err
		}
		f.Scope.Vars[n.S] = v
		return v, nil
	case KAssignComp:
		c := Val{T: VComputed, Comp: &CompV{Expr: n.A, Text: it.P.child(n.A, LAssign)}}
		f.Scope.Vars[n.S] = c
		return c, nil
	case KAssignCompAttr:
		v, err := it.Eval(f, n.A)
		if err != nil {
			return VN(), err
		}
		c, err := it.load(f, n.S, true)
		if err != nil {
			return VN(), err
		}
		return VN(), setAttr(c, n.S2, v)
	case KAssignAttr:
		v, err := it.Eval(f, n.A)
		if err != nil {
			return VN(), err
		}
		o, err := it.load(f, n.S, false)
		if err != nil {
			return VN(), err
		}
		return VN(), setAttr(o, n.S2, v)
	case KAssignIndex:
		o, err := it.Eval(f, n.A)
		if err != nil {
			return VN(), err
		}
		i, err := it.Eval(f, n.B)
		if err != nil {
			return VN(), err
		}
		v, err := it.Eval(f, n.C)
		if err != nil {
			return VN(), err
		}
		switch o.T {
		case VArr:
			if i.T != VInt {
				return VN(), fail("array index must be an integer")
			}
			k, err := realIndex(i.I, len(o.Arr.L))
			if err != nil {
				return VN(), err
			}
			o.Arr.L[k] = v
			return VN(), nil
		case VDict:
			ks, err := dictKey(i)
			if err != nil {
				return VN(), err
			}
			o.Dict.M[ks] = v
			return VN(), nil
		}
		return VN(), fail("cannot assign an index of this value")
	case KAssignSlice:
		o, err := it.Eval(f, n.A)
		if err != nil {
			return VN(), err
		}
		if o.T != VArr {
			// bounds are still evaluated first by the implementation; errors are only compared by existence
			return VN(), fail("slice assignment needs an array")
		}
		lo, hi, err := it.sliceBounds(f, n.B, n.C, o)
		if err != nil {
			return VN(), err
		}
		v, err := it.Eval(f, n.D)
		if err != nil {
			return VN(), err
		}
		if v.T != VArr {
			return VN(), fail("slice assignment needs an array value")
		}
		l := append([]Val{}, o.Arr.L[:lo]...)
		l = append(l, v.Arr.L...)
		l = append(l, o.Arr.L[hi:]...)
		o.Arr.L = l
		return VN(), nil
	}
	return VN(), fail("reference: node kind %d is a statement", n.K)
}

func (it *Interp) holeValue(f *Frame, body []*Node) (Val, error) {
	last := VS("")
	for _, s := range body {
		v, has, err := it.stmt(f, s)
		if err != nil {
			return VN(), err
		}
		if has {
			last = v
		}
	}
	return last, nil
}

func (it *Interp) sliceBounds(f *Frame, b, c *Node, a Val) (int, int, error) {
	var n int
	switch a.T {
	case VStr:
		n = len([]rune(a.S))
	case VArr:
		n = len(a.Arr.L)
	case VDict:
		n = len(a.Dict.M)
	default:
		// the implementation evaluates the bounds before it looks at the object; only error-ness is compared
		if b != nil {
			if _, err := it.Eval(f, b); err != nil {
				return 0, 0, err
			}
		}
		if c != nil {
			if _, err := it.Eval(f, c); err != nil {
				return 0, 0, err
			}
		}
		return 0, 0, fail("cannot take the length of this value")
	}
	lo, hi := int64(0), int64(n)
	if b != nil {
		v, err := it.Eval(f, b)
		if err != nil {
			return 0, 0, err
		}
		if v.T == VInt {
			lo = v.I
		} else if v.T != VNull {
			return 0, 0, fail("slice bound must be an integer")
		}
	}
	if c != nil {
		v, err := it.Eval(f, c)
		if err != nil {
			return 0, 0, err
		}
		if v.T == VInt {
			hi = v.I
		} else if v.T != VNull {
			return 0, 0, fail("slice bound must be an integer")
		}
	}
	l, h := clampIndex(lo, n), clampIndex(hi, n)
	if l > h {
		l = h
	}
	return l, h, nil
}

func index(a, i Val) (Val, error) {
	switch a.T {
	case VArr:
		if i.T != VInt {
			return VN(), fail("array index must be an integer")
		}
		k, err := realIndex(i.I, len(a.Arr.L))
		if err != nil {
			return VN(), err
		}
		return a.Arr.L[k], nil
	case VStr:
		if i.T != VInt {
			return VN(), fail("string index must be an integer")
		}
		r := []rune(a.S)
		k, err := realIndex(i.I, len(r))
		if err != nil {
			return VN(), err
		}
		return VS(string(r[k : k+1])), nil
	case VDict:
		ks, err := dictKey(i)
		if err != nil {
			return VN(), err
		}
		if v, ok := a.Dict.M[ks]; ok {
			return v, nil
		}
		return VN(), nil
	}
	return VN(), fail("this value cannot be indexed")
}

var arrMethods = map[string]int{"sum": 0, "len": 0, "push": 1, "pop": 0, "shift": 0, "kh": -1, "kl": -1}
var dictMethods = map[string]int{"keys": 0, "values": 0, "items": 0, "len": 0}

func (it *Interp) attr(a Val, name string) (Val, error) {
	switch a.T {
	case VDict:
		if v, ok := a.Dict.M[name]; ok {
			return v, nil
		}
		p := a
		for {
			pr, ok := p.Dict.M["__proto__"]
			if !ok || pr.T != VDict {
				break
			}
			if v, ok := pr.Dict.M[name]; ok {
				return v, nil
			}
			p = pr
		}
		if _, ok := dictMethods[name]; ok {
			self := a
			return Val{T: VNative, Nat: &NativeV{Name: "Dict." + name, Self: &self}}, nil
		}
		return VN(), nil
	case VArr:
		if _, ok := arrMethods[name]; ok {
			self := a
			return Val{T: VNative, Nat: &NativeV{Name: "Array." + name, Self: &self}}, nil
		}
		if name == "shuffle" || name == "rand" || name == "randSize" {
			return VN(), fail("random array methods are outside the reference's domain")
		}
		return VN(), nil
	case VComputed:
		if a.Comp.Attrs != nil {
			if v, ok := a.Comp.Attrs.Vars[name]; ok {
				return v, nil
			}
		}
		return VN(), nil
	case VFunc, VNative:
		return VN(), nil
	}
	return VN(), fail("this value has no attributes")
}

func setAttr(o Val, name string, v Val) error {
	switch o.T {
	case VDict:
		o.Dict.M[name] = v
		return nil
	case VComputed:
		if o.Comp.Attrs == nil {
			o.Comp.Attrs = NewScope()
		}
		o.Comp.Attrs.Vars[name] = v
		return nil
	}
	return fail("cannot set an attribute of this value")
}

func (it *Interp) call(f *Frame, fv Val, args []Val) (Val, error) {
	if err := it.tick(); err != nil {
		return VN(), err
	}
	switch fv.T {
	case VFunc:
		if len(args) != len(fv.Fn.Params) {
			return VN(), fail("arity mismatch")
		}
		it.Depth++
		defer func() { it.Depth-- }()
		if it.Depth > 40 {
			return VN(), fail("reference recursion depth")
		}
		sc := NewScope()
		for i, p := range fv.Fn.Params {
			sc.Vars[p] = args[i]
		}
		fr := &Frame{Scope: sc, Up: f}
		return it.Run(fr, fv.Fn.Body)
	case VNative:
		return it.native(f, fv.Nat, args)
	}
	return VN(), fail("value is not callable")
}

func keep(a Val, n int64, high bool) Val {
	var nums []float64
	allInt := true
	for _, e := range a.Arr.L {
		switch e.T {
		case VInt:
			nums = append(nums, float64(e.I))
		case VFloat:
			allInt = false
			nums = append(nums, e.F)
		}
	}
	sort.Float64s(nums)
	if high {
		for i, j := 0, len(nums)-1; i < j; i, j = i+1, j-1 {
			nums[i], nums[j] = nums[j], nums[i]
		}
	}
	t := 0.0
	for i := int64(0); i < n && i < int64(len(nums)); i++ {
		t += nums[i]
	}
	if allInt {
		return VI(int64(t))
	}
	return VF(t)
}

func (it *Interp) native(f *Frame, nat *NativeV, args []Val) (Val, error) {
	name := nat.Name
	if nat.Self != nil {
		self := *nat.Self
		switch name {
		case "Array.kh", "Array.kl":
			if len(args) == 0 {
				args = []Val{VI(1)}
			}
			if len(args) != 1 {
				return VN(), fail("arity mismatch")
			}
			if args[0].T != VInt {
				return VN(), fail("count must be an integer")
			}
			return keep(self, args[0].I, name == "Array.kh"), nil
		}
		want := -2
		if strings.HasPrefix(name, "Array.") {
			want = arrMethods[strings.TrimPrefix(name, "Array.")]
		} else {
			want = dictMethods[strings.TrimPrefix(name, "Dict.")]
		}
		if len(args) != want {
			return VN(), fail("arity mismatch")
		}
		switch name {
		case "Array.sum":
			t, allInt := 0.0, true
			for _, e := range self.Arr.L {
				switch e.T {
				case VInt:
					t += float64(e.I)
				case VFloat:
					allInt = false
					t += e.F
				}
			}
			if allInt {
				return VI(int64(t)), nil
			}
			return VF(t), nil
		case "Array.len":
			return VI(int64(len(self.Arr.L))), nil
		case "Array.push":
			self.Arr.L = append(self.Arr.L, args[0])
			return self, nil
		case "Array.pop":
			if len(self.Arr.L) == 0 {
				return VN(), nil
			}
			v := self.Arr.L[len(self.Arr.L)-1]
			self.Arr.L = self.Arr.L[:len(self.Arr.L)-1]
			return v, nil
		case "Array.shift":
			if len(self.Arr.L) == 0 {
				return VN(), nil
			}
			v := self.Arr.L[0]
			self.Arr.L = self.Arr.L[1:]
			return v, nil
		case "Dict.len":
			return VI(int64(len(self.Dict.M))), nil
		case "Dict.keys", "Dict.values", "Dict.items":
			var ks []string
			for k := range self.Dict.M {
				ks = append(ks, k)
			}
			sort.Strings(ks)
			var l []Val
			for _, k := range ks {
				switch name {
				case "Dict.keys":
					l = append(l, VS(k))
				case "Dict.values":
					l = append(l, self.Dict.M[k])
				default:
					l = append(l, Val{T: VArr, Arr: &ArrV{[]Val{VS(k), self.Dict.M[k]}}})
				}
			}
			return Val{T: VArr, Arr: &ArrV{l}}, nil
		}
		return VN(), fail("unknown method")
	}
	if len(args) != builtinNames[name] {
		return VN(), fail("arity mismatch")
	}
	a := args[0]
	switch name {
	case "ceil", "floor", "round":
		switch a.T {
		case VInt:
			return a, nil
		case VFloat:
			switch name {
			case "ceil":
				return VI(int64(math.Ceil(a.F))), nil
			case "floor":
				return VI(int64(math.Floor(a.F))), nil
			}
			return VI(int64(math.Round(a.F))), nil
		}
		return VN(), fail("not a number")
	case "abs":
		switch a.T {
		case VInt:
			if a.I < 0 {
				return VI(-a.I), nil
			}
			return a, nil
		case VFloat:
			return VF(math.Abs(a.F)), nil
		}
		return VN(), fail("not a number")
	case "toInt":
		switch a.T {
		case VInt:
			return a, nil
		case VFloat:
			return VI(int64(a.F)), nil
		case VStr:
			i, err := strconv.ParseInt(a.S, 10, 64)
			if err != nil {
				return VN(), fail("not an integer text")
			}
			return VI(i), nil
		}
		return VN(), fail("cannot convert")
	case "toFloat":
		switch a.T {
		case VInt:
			return VF(float64(a.I)), nil
		case VFloat:
			return a, nil
		case VStr:
			x, err := strconv.ParseFloat(a.S, 64)
			if err != nil {
				return VN(), fail("not a float text")
			}
			return VF(x), nil
		}
		return VN(), fail("cannot convert")
	case "toStr":
		return VS(ToStr(a)), nil
	case "repr":
		return VS(toStr(a, map[any]bool{}, true)), nil
	case "toBool":
		return boolV(Truthy(a)), nil
	case "typeId":
		return VI(int64([]int{0, 1, 2, 4, 6, 7, 8, 9, 5}[a.T])), nil
	case "load", "loadRaw":
		if a.T != VStr {
			return VN(), fail("load needs a name")
		}
		return it.load(f, a.S, name == "loadRaw")
	case "store":
		if a.T != VStr {
			return VN(), fail("store needs a name")
		}
		f.Scope.Vars[a.S] = args[1]
		return args[1], nil
	}
	return VN(), fail("builtin outside the reference's domain")
}

// dice under min / max mode: every die shows 1 / its number of sides
func (it *Interp) dice(n *Node) (Val, error) {
	if it.DiceMode == 0 {
		return VN(), fail("dice outside min/max mode are not in the reference's domain")
	}
	if n.Times <= 0 || n.Sides <= 0 || (n.Mode != 0 && n.N <= 0) {
		return VN(), fail("illegal dice parameters")
	}
	face := 1
	if it.DiceMode == 1 {
		face = n.Sides
	}
	if n.Max != nil && face > *n.Max {
		face = *n.Max
	}
	if n.Min != nil && face < *n.Min {
		face = *n.Min
	}
	k := n.Times
	switch n.Mode {
	case 1, 2:
		if n.N < k {
			k = n.N
		}
	case 3, 4:
		k = n.Times - n.N
		if k < 0 {
			k = 0
		}
	}
	return VI(int64(k * face)), nil
}
