// Package ref is the independent reference semantics of the DiceScript core
// language (E7): a grammar-shaped AST, a printer that parenthesises exactly
// where the published grammar requires it, and a tree-walking evaluator written
// from docs/GUIDE.md, the grammar's precedence levels and the documented
// run-time rules. It shares no code with the implementation.
package ref

import (
	"fmt"
	"strconv"
	"strings"
)

// Node kinds.
const (
	KInt = iota
	KFloat
	KStr
	KNull
	KVar     // S
	KRawVar  // &S
	KThisAttr // this.S
	KArr     // Kids
	KRange   // A..B
	KDict    // Kids = key,value pairs (key node: KStr / KVar / expr)
	KTpl     // Kids: KStr segments and hole statements (Body in hole nodes)
	KHole    // Body, Style
	KUn      // Op, A
	KBin     // Op, A, B
	KTern    // A ? B : C
	KTern2   // Kids: cond,val pairs (multi-way, '' default)
	KCall    // A callee, Kids args
	KIndex   // A[B]
	KSlice   // A[B:C] (B/C may be nil)
	KAttr    // A.S
	KMethod  // A.S(Kids)
	KDice    // dice term: I times, J sides, Mode, N ; printed from S
	// statements / assignment forms (assignment is an expression in the grammar)
	KAssign      // S = A
	KAssignIndex // A[B] = C
	KAssignAttr  // S.S2 = A  (identifier . identifier)
	KAssignSlice // A[B:C] = D
	KAssignThis  // this.S = A
	KAssignComp  // &S = A
	KAssignCompAttr // &S.S2 = A
	KIf      // A cond, Body, Else (Else may hold a single KIf for else-if)
	KWhile   // A cond, Body
	KBreak
	KContinue
	KReturn // A may be nil
	KFunc   // S name, Params, Body
)

type Node struct {
	K      int
	Op     string
	S, S2  string
	I      int64
	F      float64
	A, B, C, D *Node
	Kids   []*Node
	Body   []*Node
	Else   []*Node
	HasElse bool
	Params []string
	Style  int // hole style 1 {..} 2 {% .. %}
	// dice
	Times, Sides, Mode, N int
	Min, Max            *int
	Paren bool // print redundant parentheses around this node
}

func Int(i int64) *Node      { return &Node{K: KInt, I: i} }
func Float(f float64) *Node  { return &Node{K: KFloat, F: f} }
func Str(s string) *Node     { return &Node{K: KStr, S: s} }
func Null() *Node            { return &Node{K: KNull} }
func Var(s string) *Node     { return &Node{K: KVar, S: s} }
func Bin(op string, a, b *Node) *Node { return &Node{K: KBin, Op: op, A: a, B: b} }
func Un(op string, a *Node) *Node     { return &Node{K: KUn, Op: op, A: a} }
func Arr(k ...*Node) *Node   { return &Node{K: KArr, Kids: k} }
func Assign(name string, a *Node) *Node { return &Node{K: KAssign, S: name, A: a} }
func Call(f *Node, args ...*Node) *Node { return &Node{K: KCall, A: f, Kids: args} }
func Method(o *Node, name string, args ...*Node) *Node { return &Node{K: KMethod, A: o, S: name, Kids: args} }
func Index(a, i *Node) *Node { return &Node{K: KIndex, A: a, B: i} }

// precedence levels, loosest to tightest
const (
	LAssign = iota
	LSlice
	LTern
	LOr
	LAnd
	LBitOr
	LBitAnd
	LCmp
	LAdd
	LMul
	LNullCo
	LExp
	LUnary
	LDice
	LValue
)

var binLevel = map[string]int{
	"||": LOr, "&&": LAnd, "|": LBitOr, "&": LBitAnd,
	"<": LCmp, "<=": LCmp, "==": LCmp, "!=": LCmp, ">=": LCmp, ">": LCmp,
	"+": LAdd, "-": LAdd, "*": LMul, "/": LMul, "%": LMul, "??": LNullCo, "^": LExp, "**": LExp,
}

// level a node occupies in the grammar
func (n *Node) Level() int {
	switch n.K {
	case KBin:
		return binLevel[n.Op]
	case KUn:
		return LUnary
	case KTern, KTern2:
		return LTern
	case KSlice:
		return LSlice
	case KAssign, KAssignIndex, KAssignAttr, KAssignSlice, KAssignThis, KAssignComp, KAssignCompAttr:
		return LAssign
	case KDice:
		return LDice
	case KInt:
		if n.I < 0 {
			return LUnary
		}
	case KFloat:
		if n.F < 0 {
			return LUnary
		}
	}
	return LValue
}

// Printer holds spacing choices.
type Printer struct {
	Sp      string // around binary operators
	NL      bool   // line break after binary operators / separators where the grammar allows it
	StmtSep string // between statements
}

// colon of the ternary: identifiers may contain ':' after their first character ("a:b" is one name),
// so the printer always keeps a blank on both sides
func (p Printer) colon() string {
	if p.NL {
		return " :\n"
	}
	return " : "
}

func (p Printer) op(o string) string {
	if o == "&&" || o == "&" {
		// "&x" is the raw-load prefix: "1&&x" reads as 1 & (&x); keep a blank after the operator
		if p.NL {
			return p.Sp + o + "\n"
		}
		return p.Sp + o + " "
	}
	if p.NL {
		return p.Sp + o + "\n"
	}
	return p.Sp + o + p.Sp
}

// child prints n for a slot that requires at least level min.
func (p Printer) child(n *Node, min int) string {
	s := p.Expr(n)
	if n.Level() < min || n.Paren {
		return "(" + s + ")"
	}
	return s
}

func quote(s string) string {
	var sb strings.Builder
	sb.WriteByte('\'')
	for _, r := range s {
		switch r {
		case '\\':
			sb.WriteString("\\\\")
		case '\'':
			sb.WriteString("\\'")
		case '\n':
			sb.WriteString("\\n")
		default:
			sb.WriteRune(r)
		}
	}
	sb.WriteByte('\'')
	return sb.String()
}

func fmtFloat(f float64) string {
	s := strconv.FormatFloat(f, 'f', -1, 64)
	if !strings.Contains(s, ".") {
		s += ".0"
	}
	return s
}

// Expr prints an expression node.
func (p Printer) Expr(n *Node) string {
	switch n.K {
	case KInt:
		return strconv.FormatInt(n.I, 10)
	case KFloat:
		return fmtFloat(n.F)
	case KStr:
		return quote(n.S)
	case KNull:
		return "null"
	case KVar:
		return n.S
	case KRawVar:
		return "&" + n.S
	case KThisAttr:
		return "this." + n.S
	case KArr:
		var parts []string
		for _, k := range n.Kids {
			parts = append(parts, p.child(k, LAssign))
		}
		return "[" + strings.Join(parts, ","+p.Sp) + "]"
	case KRange:
		return "[" + p.child(n.A, LAssign) + ".." + p.child(n.B, LAssign) + "]"
	case KDict:
		var parts []string
		for i := 0; i+1 < len(n.Kids); i += 2 {
			parts = append(parts, p.child(n.Kids[i], LAssign)+":"+p.Sp+p.child(n.Kids[i+1], LAssign))
		}
		return "{" + strings.Join(parts, ","+p.Sp) + "}"
	case KTpl:
		var sb strings.Builder
		sb.WriteByte('`')
		for _, k := range n.Kids {
			if k.K == KStr {
				for _, r := range k.S {
					switch r {
					case '\\':
						sb.WriteString("\\\\")
					case '{':
						sb.WriteString("\\{")
					case '`':
						panic("backtick in template literal")
					default:
						sb.WriteRune(r)
					}
				}
			} else {
				body := p.Stmts(k.Body)
				if k.Style == 2 {
					sb.WriteString("{% " + body + " %}")
				} else {
					sb.WriteString("{" + body + "}")
				}
			}
		}
		sb.WriteByte('`')
		return sb.String()
	case KUn:
		return n.Op + p.child(n.A, LDice)
	case KBin:
		l := binLevel[n.Op]
		left, right := l, l+1
		switch l {
		case LMul:
			left, right = LMul, LExp // right operand of * / % is an exponent-level expression
		case LNullCo:
			left, right = LNullCo, LExp
		case LExp:
			left, right = LExp, LUnary
		}
		return p.child(n.A, left) + p.op(n.Op) + p.child(n.B, right)
	case KTern:
		return p.child(n.A, LOr) + p.op("?") + p.child(n.B, LOr) + p.colon() + p.child(n.C, LOr)
	case KTern2:
		var parts []string
		for i := 0; i+1 < len(n.Kids); i += 2 {
			parts = append(parts, p.child(n.Kids[i], LOr)+p.op("?")+p.child(n.Kids[i+1], LOr))
		}
		return strings.Join(parts, ","+p.Sp)
	case KCall:
		var parts []string
		for _, k := range n.Kids {
			parts = append(parts, p.child(k, LAssign))
		}
		return p.callee(n.A) + "(" + strings.Join(parts, ","+p.Sp) + ")"
	case KIndex:
		return p.postfixBase(n.A) + "[" + p.child(n.B, LAssign) + "]"
	case KSlice:
		b, c := "", ""
		if n.B != nil {
			b = p.child(n.B, LAssign)
		}
		if n.C != nil {
			c = p.child(n.C, LAssign)
		}
		return p.child(n.A, LTern) + "[" + b + sliceColon(b) + c + "]"
	case KAttr:
		return p.postfixBase(n.A) + "." + n.S
	case KMethod:
		var parts []string
		for _, k := range n.Kids {
			parts = append(parts, p.child(k, LAssign))
		}
		return p.postfixBase(n.A) + "." + n.S + "(" + strings.Join(parts, ","+p.Sp) + ")"
	case KDice:
		return n.S
	case KAssign:
		return n.S + p.Sp + "=" + p.Sp + p.child(n.A, LAssign)
	case KAssignThis:
		return "this." + n.S + p.Sp + "=" + p.Sp + p.child(n.A, LAssign)
	case KAssignComp:
		return "&" + n.S + p.Sp + "=" + p.Sp + p.child(n.A, LAssign)
	case KAssignCompAttr:
		return "&" + n.S + "." + n.S2 + p.Sp + "=" + p.Sp + p.child(n.A, LAssign)
	case KAssignAttr:
		return n.S + "." + n.S2 + p.Sp + "=" + p.Sp + p.child(n.A, LAssign)
	case KAssignIndex:
		return p.child(n.A, LSlice) + "[" + p.child(n.B, LAssign) + "]" + p.Sp + "=" + p.Sp + p.child(n.C, LAssign)
	case KAssignSlice:
		b, c := "", ""
		if n.B != nil {
			b = p.child(n.B, LAssign)
		}
		if n.C != nil {
			c = p.child(n.C, LAssign)
		}
		return p.child(n.A, LSlice) + "[" + b + sliceColon(b) + c + "]" + p.Sp + "=" + p.Sp + p.child(n.D, LAssign)
	}
	panic(fmt.Sprintf("Expr: statement node %d", n.K))
}

// postfixBase: what may carry [i] / .k : identifiers (with call), parenthesised expressions, array / dict literals
func (p Printer) postfixBase(n *Node) string {
	switch n.K {
	case KVar, KCall, KIndex, KArr, KDict, KRange:
		if n.K == KCall && n.A.K != KVar {
			break
		}
		if n.K == KIndex && !(n.A.K == KVar || n.A.K == KIndex || n.A.K == KArr) {
			break
		}
		return p.Expr(n)
	case KAttr, KMethod:
		// attribute chains continue only with further attributes (no index after an attribute)
		return p.Expr(n)
	case KRawVar:
		return p.Expr(n)
	}
	return "(" + p.Expr(n) + ")"
}

func (p Printer) callee(n *Node) string {
	if n.K == KVar {
		return n.S
	}
	panic("callee must be an identifier in the printable subset")
}

// Stmts prints a statement list.
func (p Printer) Stmts(body []*Node) string {
	var sb strings.Builder
	prevText := ""
	for i, s := range body {
		if i > 0 {
			prev := body[i-1]
			cur := p.Stmt(s)
			switch {
			case prev.K == KIf || prev.K == KWhile || prev.K == KFunc:
				sb.WriteString(" ")
			case !strings.Contains(p.StmtSep, ";") && (prev.K == KBreak || prev.K == KContinue || prev.K == KReturn || !startsPlain(cur) || !endsPlain(prevText)):
				// a line break is plain white space inside an expression: "3\n&c = 1" reads as 3 & c = 1,
				// "return\nx" as return x, and break / continue swallow the line break; such joints need a ';'
				sb.WriteString(";" + p.StmtSep)
			default:
				sb.WriteString(p.StmtSep)
			}
			sb.WriteString(cur)
			prevText = cur
			continue
		}
		prevText = p.Stmt(s)
		sb.WriteString(prevText)
	}
	return sb.String()
}

// sliceColon: an identifier may contain ':' so it needs a blank before the slice colon; other bounds must not have one
func sliceColon(bound string) string {
	if bound != "" {
		c := bound[len(bound)-1]
		if c == '_' || (c >= 'a' && c <= 'z') || (c >= 'A' && c <= 'Z') || c >= 0x80 {
			return " :"
		}
	}
	return ":"
}

// endsPlain: only an identifier or a number leaves the line break for the statement separator
// (closing brackets and quotes consume trailing white space including the line break)
func endsPlain(s string) bool {
	if s == "" {
		return false
	}
	c := s[len(s)-1]
	if !(c == '_' || (c >= 'a' && c <= 'z') || (c >= 'A' && c <= 'Z') || (c >= '0' && c <= '9')) {
		return false
	}
	// "x.k" : the attribute name is followed by 'sp', which swallows the line break
	i := len(s) - 1
	for i >= 0 && (s[i] == '_' || (s[i] >= 'a' && s[i] <= 'z') || (s[i] >= 'A' && s[i] <= 'Z') || (s[i] >= '0' && s[i] <= '9')) {
		i--
	}
	if i >= 0 && (s[i] == '.' || s[i] == '&') {
		return false // ".k" and "&name" are followed by 'sp' as well
	}
	switch s[i+1:] {
	case "null", "true", "false", "this":
		return false // literal keywords swallow trailing white space too
	}
	return true
}

func startsPlain(s string) bool {
	if s == "" {
		return false
	}
	c := s[0]
	return c == '_' || (c >= 'a' && c <= 'z') || (c >= 'A' && c <= 'Z') || (c >= '0' && c <= '9') || c == '\'' || c == '`'
}

func (p Printer) block(body []*Node) string {
	if len(body) == 0 {
		return "{}"
	}
	return "{ " + p.Stmts(body) + " }"
}

func (p Printer) Stmt(n *Node) string {
	switch n.K {
	case KIf:
		s := "if " + p.child(n.A, LAssign) + " " + p.block(n.Body)
		if n.HasElse {
			if len(n.Else) == 1 && n.Else[0].K == KIf {
				s += " else " + p.Stmt(n.Else[0])
			} else {
				s += " else " + p.block(n.Else)
			}
		}
		return s
	case KWhile:
		return "while " + p.child(n.A, LAssign) + " " + p.block(n.Body)
	case KBreak:
		return "break"
	case KContinue:
		return "continue"
	case KReturn:
		if n.A == nil {
			return "return"
		}
		return "return " + p.child(n.A, LAssign)
	case KFunc:
		return "func " + n.S + "(" + strings.Join(n.Params, ", ") + ") " + p.block(n.Body)
	}
	return p.Expr(n)
}

// Program prints a whole program.
func (p Printer) Program(body []*Node) string { return p.Stmts(body) }
