// Package rules restates the dice rules of docs/GUIDE.md independently of the
// implementation (E8): given the faces drawn, what is the result.
package rules

import "sort"

// Common: XdY with keep/drop and min/max clamps. mode: 0 none, 1 keep low,
// 2 keep high, 3 drop low, 4 drop high.
func Common(faces []int, mode, n int, min, max *int) (total int, kept, dropped []int) {
	d := make([]int, len(faces))
	for i, f := range faces {
		if max != nil && f > *max {
			f = *max
		}
		if min != nil && f < *min {
			f = *min
		}
		d[i] = f
	}
	asc := append([]int{}, d...)
	sort.Ints(asc)
	x := len(d)
	clamp := func(k int) int {
		if k < 0 {
			return 0
		}
		if k > x {
			return x
		}
		return k
	}
	switch mode {
	case 0:
		kept = d
	case 1: // keep n lowest
		k := clamp(n)
		kept, dropped = asc[:k], asc[k:]
	case 2: // keep n highest
		k := clamp(n)
		kept, dropped = asc[x-k:], asc[:x-k]
	case 3: // drop n lowest
		k := clamp(n)
		dropped, kept = asc[:k], asc[k:]
	case 4: // drop n highest
		k := clamp(n)
		dropped, kept = asc[x-k:], asc[:x-k]
	}
	for _, v := range kept {
		total += v
	}
	return
}

// Fate: four d3, each face-2.
func Fate(faces []int) int {
	t := 0
	for _, f := range faces {
		t += f - 2
	}
	return t
}

// CoC: d100 (1..100) plus n extra tens dice (1..10, 10 reads as 0).
func CoC(d100 int, extra []int, bonus bool) int {
	units := d100 % 10
	tens := []int{(d100 / 10) % 10}
	for _, e := range extra {
		tens = append(tens, e%10)
	}
	best := -1
	for _, t := range tens {
		v := t*10 + units
		if v == 0 {
			v = 100
		}
		if best == -1 || (bonus && v < best) || (!bonus && v > best) {
			best = v
		}
	}
	return best
}

// WoD: rounds of pools; returns successes, total dice, rounds. consumed tells
// how many faces were used; ok=false when faces ran out.
func WoD(faces []int, pool, addLine, threshold int, ge bool) (succ, total, rounds, consumed int, ok bool) {
	i := 0
	for pool > 0 {
		rounds++
		add := 0
		for k := 0; k < pool; k++ {
			if i >= len(faces) {
				return 0, 0, 0, i, false
			}
			f := faces[i]
			i++
			total++
			if (ge && f >= threshold) || (!ge && f <= threshold) {
				succ++
			}
			if addLine != 0 && f >= addLine {
				add++
			}
		}
		pool = add
	}
	return succ, total, rounds, i, true
}

// DoubleCross: result = 10 per critical round + highest die of the last round.
func DoubleCross(faces []int, pool, crit int) (result, total, rounds, consumed int, ok bool) {
	i := 0
	for pool > 0 {
		rounds++
		nc, hi := 0, 0
		for k := 0; k < pool; k++ {
			if i >= len(faces) {
				return 0, 0, 0, i, false
			}
			f := faces[i]
			i++
			total++
			if f > hi {
				hi = f
			}
			if f >= crit {
				nc++
			}
		}
		if nc > 0 {
			result += 10
		} else {
			result += hi
		}
		pool = nc
	}
	return result, total, rounds, i, true
}
