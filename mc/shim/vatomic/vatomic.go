// Package vatomic replaces "sync/atomic" inside valuemap.go: each atomic
// operation is preceded by a scheduling point.
package vatomic

import (
	"sync/atomic"
	"unsafe"

	"github.com/sealdice/dicescript/verifshim/vsync"
)

func point(kind string) {
	if s := vsync.Active; s != nil {
		s.Point(kind)
	}
}

type Value struct{ v atomic.Value }

func (v *Value) Load() any   { point("value.load"); return v.v.Load() }
func (v *Value) Store(x any) { point("value.store"); v.v.Store(x) }

func LoadPointer(addr *unsafe.Pointer) unsafe.Pointer {
	point("ptr.load")
	return atomic.LoadPointer(addr)
}

func StorePointer(addr *unsafe.Pointer, val unsafe.Pointer) {
	point("ptr.store")
	atomic.StorePointer(addr, val)
}

func CompareAndSwapPointer(addr *unsafe.Pointer, old, new unsafe.Pointer) bool {
	point("ptr.cas")
	return atomic.CompareAndSwapPointer(addr, old, new)
}

// ---- the rest of the sync/atomic API, so that a revision of valuemap.go that uses other atomic operations still builds
// under the overlay (each operation is a scheduling point, then the real operation)

func SwapPointer(addr *unsafe.Pointer, new unsafe.Pointer) unsafe.Pointer {
	point("ptr.swap")
	return atomic.SwapPointer(addr, new)
}

func AddInt32(addr *int32, delta int32) int32     { point("i32.add"); return atomic.AddInt32(addr, delta) }
func AddInt64(addr *int64, delta int64) int64     { point("i64.add"); return atomic.AddInt64(addr, delta) }
func AddUint32(addr *uint32, delta uint32) uint32 { point("u32.add"); return atomic.AddUint32(addr, delta) }
func AddUint64(addr *uint64, delta uint64) uint64 { point("u64.add"); return atomic.AddUint64(addr, delta) }
func LoadInt32(addr *int32) int32                 { point("i32.load"); return atomic.LoadInt32(addr) }
func LoadInt64(addr *int64) int64                 { point("i64.load"); return atomic.LoadInt64(addr) }
func LoadUint32(addr *uint32) uint32              { point("u32.load"); return atomic.LoadUint32(addr) }
func LoadUint64(addr *uint64) uint64              { point("u64.load"); return atomic.LoadUint64(addr) }
func StoreInt32(addr *int32, v int32)             { point("i32.store"); atomic.StoreInt32(addr, v) }
func StoreInt64(addr *int64, v int64)             { point("i64.store"); atomic.StoreInt64(addr, v) }
func StoreUint32(addr *uint32, v uint32)          { point("u32.store"); atomic.StoreUint32(addr, v) }
func StoreUint64(addr *uint64, v uint64)          { point("u64.store"); atomic.StoreUint64(addr, v) }
func SwapInt32(addr *int32, v int32) int32        { point("i32.swap"); return atomic.SwapInt32(addr, v) }
func SwapInt64(addr *int64, v int64) int64        { point("i64.swap"); return atomic.SwapInt64(addr, v) }
func SwapUint32(addr *uint32, v uint32) uint32    { point("u32.swap"); return atomic.SwapUint32(addr, v) }
func SwapUint64(addr *uint64, v uint64) uint64    { point("u64.swap"); return atomic.SwapUint64(addr, v) }
func CompareAndSwapInt32(addr *int32, o, n int32) bool {
	point("i32.cas")
	return atomic.CompareAndSwapInt32(addr, o, n)
}
func CompareAndSwapInt64(addr *int64, o, n int64) bool {
	point("i64.cas")
	return atomic.CompareAndSwapInt64(addr, o, n)
}
func CompareAndSwapUint32(addr *uint32, o, n uint32) bool {
	point("u32.cas")
	return atomic.CompareAndSwapUint32(addr, o, n)
}
func CompareAndSwapUint64(addr *uint64, o, n uint64) bool {
	point("u64.cas")
	return atomic.CompareAndSwapUint64(addr, o, n)
}

type Int32 struct{ v atomic.Int32 }

func (x *Int32) Load() int32                    { point("i32.load"); return x.v.Load() }
func (x *Int32) Store(v int32)                  { point("i32.store"); x.v.Store(v) }
func (x *Int32) Add(d int32) int32              { point("i32.add"); return x.v.Add(d) }
func (x *Int32) Swap(v int32) int32             { point("i32.swap"); return x.v.Swap(v) }
func (x *Int32) CompareAndSwap(o, n int32) bool { point("i32.cas"); return x.v.CompareAndSwap(o, n) }

type Int64 struct{ v atomic.Int64 }

func (x *Int64) Load() int64                    { point("i64.load"); return x.v.Load() }
func (x *Int64) Store(v int64)                  { point("i64.store"); x.v.Store(v) }
func (x *Int64) Add(d int64) int64              { point("i64.add"); return x.v.Add(d) }
func (x *Int64) Swap(v int64) int64             { point("i64.swap"); return x.v.Swap(v) }
func (x *Int64) CompareAndSwap(o, n int64) bool { point("i64.cas"); return x.v.CompareAndSwap(o, n) }

type Uint32 struct{ v atomic.Uint32 }

func (x *Uint32) Load() uint32                    { point("u32.load"); return x.v.Load() }
func (x *Uint32) Store(v uint32)                  { point("u32.store"); x.v.Store(v) }
func (x *Uint32) Add(d uint32) uint32             { point("u32.add"); return x.v.Add(d) }
func (x *Uint32) Swap(v uint32) uint32            { point("u32.swap"); return x.v.Swap(v) }
func (x *Uint32) CompareAndSwap(o, n uint32) bool { point("u32.cas"); return x.v.CompareAndSwap(o, n) }

type Uint64 struct{ v atomic.Uint64 }

func (x *Uint64) Load() uint64                    { point("u64.load"); return x.v.Load() }
func (x *Uint64) Store(v uint64)                  { point("u64.store"); x.v.Store(v) }
func (x *Uint64) Add(d uint64) uint64             { point("u64.add"); return x.v.Add(d) }
func (x *Uint64) Swap(v uint64) uint64            { point("u64.swap"); return x.v.Swap(v) }
func (x *Uint64) CompareAndSwap(o, n uint64) bool { point("u64.cas"); return x.v.CompareAndSwap(o, n) }

type Bool struct{ v atomic.Bool }

func (x *Bool) Load() bool                    { point("bool.load"); return x.v.Load() }
func (x *Bool) Store(v bool)                  { point("bool.store"); x.v.Store(v) }
func (x *Bool) Swap(v bool) bool              { point("bool.swap"); return x.v.Swap(v) }
func (x *Bool) CompareAndSwap(o, n bool) bool { point("bool.cas"); return x.v.CompareAndSwap(o, n) }

type Pointer[T any] struct{ v atomic.Pointer[T] }

func (x *Pointer[T]) Load() *T                    { point("ptr.load"); return x.v.Load() }
func (x *Pointer[T]) Store(v *T)                  { point("ptr.store"); x.v.Store(v) }
func (x *Pointer[T]) Swap(v *T) *T                { point("ptr.swap"); return x.v.Swap(v) }
func (x *Pointer[T]) CompareAndSwap(o, n *T) bool { point("ptr.cas"); return x.v.CompareAndSwap(o, n) }

func (v *Value) Swap(x any) any                  { point("value.swap"); return v.v.Swap(x) }
func (v *Value) CompareAndSwap(o, n any) bool    { point("value.cas"); return v.v.CompareAndSwap(o, n) }
