// Package vatomic replaces "sync/atomic" inside valuemap.go: each atomic
// operation is preceded by a scheduling point.
package vatomic

import (
	"sync/atomic"
	"unsafe"

	"github.com/sealdice/dicescript/verifshim/vsync"
)

func point(kind string) {
	if s := vsync.Active; s != nil {
		s.Point(kind)
	}
}

type Value struct{ v atomic.Value }

func (v *Value) Load() any   { point("value.load"); return v.v.Load() }
func (v *Value) Store(x any) { point("value.store"); v.v.Store(x) }

func LoadPointer(addr *unsafe.Pointer) unsafe.Pointer {
	point("ptr.load")
	return atomic.LoadPointer(addr)
}

func StorePointer(addr *unsafe.Pointer, val unsafe.Pointer) {
	point("ptr.store")
	atomic.StorePointer(addr, val)
}

func CompareAndSwapPointer(addr *unsafe.Pointer, old, new unsafe.Pointer) bool {
	point("ptr.cas")
	return atomic.CompareAndSwapPointer(addr, old, new)
}
