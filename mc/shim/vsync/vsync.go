// Package vsync replaces "sync" inside valuemap.go (through go build -overlay)
// so that every mutex operation becomes a scheduling point of the cooperative
// scheduler. With no scheduler installed it behaves exactly like sync.
package vsync

import "sync"

// Scheduler is implemented by verifmc/sched.
type Scheduler interface {
	Point(kind string)           // yield before a synchronisation operation
	BlockOn(m *Mutex)            // current thread cannot proceed until m is released
	Released(m *Mutex)           // m was released: threads blocked on it become enabled
}

// Active is the installed scheduler (nil = pass through to the real primitives).
var Active Scheduler

type Mutex struct {
	real sync.Mutex
	held bool // only meaningful under a scheduler (single running thread)
}

func (m *Mutex) Lock() {
	s := Active
	if s == nil {
		m.real.Lock()
		return
	}
	s.Point("mutex.lock")
	for m.held {
		s.BlockOn(m)
	}
	m.held = true
}

func (m *Mutex) Unlock() {
	s := Active
	if s == nil {
		m.real.Unlock()
		return
	}
	if !m.held {
		panic("vsync: unlock of unlocked mutex")
	}
	m.held = false
	s.Released(m)
	s.Point("mutex.unlock")
}

// TryLock: a scheduling point, then an attempt that never blocks.
func (m *Mutex) TryLock() bool {
	s := Active
	if s == nil {
		return m.real.TryLock()
	}
	s.Point("mutex.trylock")
	if m.held {
		return false
	}
	m.held = true
	return true
}

// RWMutex: writers exclude everybody, readers exclude writers. Under the scheduler it is built from the Mutex above (a reader
// holds the mutex only while it adjusts the reader count; a writer holds it throughout and waits for the count to drain by
// yielding), which is enough for the exploration to see every interleaving of the lock operations.
type RWMutex struct {
	real    sync.RWMutex
	w       Mutex
	readers int
}

func (m *RWMutex) Lock() {
	s := Active
	if s == nil {
		m.real.Lock()
		return
	}
	m.w.Lock()
	for m.readers > 0 {
		m.w.Unlock()
		s.Point("rwmutex.wait-readers")
		m.w.Lock()
	}
}

func (m *RWMutex) Unlock() {
	if Active == nil {
		m.real.Unlock()
		return
	}
	m.w.Unlock()
}

func (m *RWMutex) RLock() {
	if Active == nil {
		m.real.RLock()
		return
	}
	m.w.Lock()
	m.readers++
	m.w.Unlock()
}

func (m *RWMutex) RUnlock() {
	if Active == nil {
		m.real.RUnlock()
		return
	}
	m.w.Lock()
	m.readers--
	m.w.Unlock()
}

// the rest of package sync passes through unchanged (no scheduling points of their own)
type (
	Once      = sync.Once
	Pool      = sync.Pool
	WaitGroup = sync.WaitGroup
	Map       = sync.Map
	Locker    = sync.Locker
	Cond      = sync.Cond
)

func NewCond(l Locker) *Cond { return sync.NewCond(l) }
