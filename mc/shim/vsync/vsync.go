// Package vsync replaces "sync" inside valuemap.go (through go build -overlay)
// so that every mutex operation becomes a scheduling point of the cooperative
// scheduler. With no scheduler installed it behaves exactly like sync.
package vsync

import "sync"

// Scheduler is implemented by verifmc/sched.
type Scheduler interface {
	Point(kind string)           // yield before a synchronisation operation
	BlockOn(m *Mutex)            // current thread cannot proceed until m is released
	Released(m *Mutex)           // m was released: threads blocked on it become enabled
}

// Active is the installed scheduler (nil = pass through to the real primitives).
var Active Scheduler

type Mutex struct {
	real sync.Mutex
	held bool // only meaningful under a scheduler (single running thread)
}

func (m *Mutex) Lock() {
	s := Active
	if s == nil {
		m.real.Lock()
		return
	}
	s.Point("mutex.lock")
	for m.held {
		s.BlockOn(m)
	}
	m.held = true
}

func (m *Mutex) Unlock() {
	s := Active
	if s == nil {
		m.real.Unlock()
		return
	}
	if !m.held {
		panic("vsync: unlock of unlocked mutex")
	}
	m.held = false
	s.Released(m)
	s.Point("mutex.unlock")
}
