package gen

import (
	"fmt"
	"strings"
)

// Prelude defines the named values used by the operand matrix (run with every
// feature enabled before the configuration under test is applied).
const Prelude = "func xf(a){a}; &xc = 1+1; xa = [1,2]; xd = {'k':1}"

// Values are the value kinds substituted into operand slots.
var Values = []string{
	"0", "3", "-2", "4611686018427387904", "1000000000000", "9223372036854775807", "-9223372036854775807", "1.5", "0.0",
	"''", "'ab'", "'中文x'", "null", "[]", "[1,2]", "{}", "{'k':1}",
	"xf", "ceil", "xc", "&xc", "xa.sum", "this",
}

// ValuesSmall is the reduced list for three-hole templates.
var ValuesSmall = []string{"0", "3", "-2", "1.5", "'ab'", "null", "[1,2]", "{'k':1}", "xf", "4611686018427387904", "-9223372036854775807"}

var binOps = []string{"+", "-", "*", "/", "%", "^", "**", "??", "<", "<=", "==", "!=", ">=", ">", "&", "|", "&&", "||"}

// Templates1 have one hole (V); Templates2 two (V, W); Templates3 three.
var Templates1 = []string{
	"-V", "+V", "(V)", "V", "`{V}`", "`{% V %}`", "\x1e{V}\x1e", "{V: 1}", "{'a': V}.a", "[V]", "[V,V]kh", "[V,2]kl1",
	"V.x", "V.len()", "V.sum()", "V.keys()", "V.values()", "V.items()", "V.pop()", "V.shift()", "V.shuffle()", "V.rand()", "V.compute()",
	"V.kh()", "V.kl()", "V()", "V(1)", "V(1,2)",
	"(V)d6", "2d(V)", "d(V)", "(V)d", "2d6k(V)", "2d6q(V)", "2d6kh(V)", "2d6kl(V)", "2d6dl(V)", "2d6dh(V)", "2d6min(V)", "2d6max(V)", "2d6k1min(V)max(V)",
	"b(V)", "p(V)", "B(V)", "(V)a10", "2a(V)", "2a10m(V)", "2a10k(V)", "2a10q(V)", "a(V)", "(V)c10", "2c(V)", "2c10m(V)", "(V)c(V)m(V)", "(V)a(V)m(V)k(V)q(V)",
	"d(V)优势", "(V)d6d8", "2d6d(V)",
	"ceil(V)", "floor(V)", "round(V)", "abs(V)", "toInt(V)", "toFloat(V)", "toStr(V)", "toBool(V)", "repr(V)", "load(V)", "loadRaw(V)", "store(V, 1)", "store('z', V)", "typeId(V)", "dir(V)",
	"[1,2,3].kh(V)", "[1,2,3].kl(V)", "[1,2,3].randSize(V)", "[1,2,3].push(V)", "[1.5,'a',null].kh(V)", "[].randSize(V)",
	"V ? 1 : 2", "V ? 1", "V ? 1, 1 ? 2", "1 ? V : V", "if V {1} else {2}", "while V { break }", "x = V; x", "&z = V; z", "func g(q1){q1}; g(V)", "return V",
	"x = V; x.k = 1; x", "x = V; x[0] = 1; x", "x = V; x['k'] = 1; x", "x = V; x[0:1] = [9]; x", "x = V; x[:] = V; x", "x = V; y = x; y.push(1); x",
	"V[0]", "V[-1]", "V['k']", "V[0:1]", "V[:]", "V[1:]", "V[:-1]", "V[0:1:1]", "[1,2,3][V]", "'abc'[V]", "{'k':1}[V]", "[1,2,3][V:]", "'abc'[:V]", "[1,2,3][0:1:V]",
	"[V..3]", "[1..V]", "[V..V]", "[1,2]*V", "V*[1,2]", "[]*V", "x=[1]; x[V]=2", "x=[1,2,3]; x[V:]=[1]", "x={}; x[V]=2; x", "x=[1,2]; x[0:1]=V; x",
	"^stA:V", "^stA+V", "^stA-V", "^st&A=V", "^stA*2:V", "^stA*:V", "^st'a b':V", "^stA-1 ? V : 2", "^stA-0 || V", "^stA-=V", "^stA+=V", "^stA-V B+V", "^stA:1 ? V",
	"this.z = V; this.z", "&xc.k = V; &xc.k", "xd.j = V; xd", "xd.k.j = V",
	"V kh", "[1,2,V] kh 2",
}

var Templates2 = []string{
	"V[W]", "V.k = W", "V(W)", "(V)d(W)", "[V..W]", "(V)a(W)", "(V)c(W)", "2d6k(V)min(W)", "V ? W : 1", "x = V; x[W] = 1; x", "x = V; x[W]", "x = V; x[W:]", "x = V; x[:W]", "{V: W}", "store(V, W)", "V.push(W)", "V.kh(W)", "V.randSize(W)",
}

var Templates3 = []string{
	"V[W:X]", "x = V; x[W:X] = [1]; x", "x = [1,2,3]; x[V:W] = X; x", "(V)d(W)k(X)", "(V)a(W)m(X)", "(V)c(W)m(X)", "V ? W : X", "[1,2,3,4][V:W:X]",
}

func fill(t string, v, w, x string) string {
	// holes are the capital letters V W X when standing alone as a token
	var sb strings.Builder
	for i := 0; i < len(t); i++ {
		c := t[i]
		isHole := (c == 'V' || c == 'W' || c == 'X')
		if isHole {
			prevOK := i == 0 || !isIdentByte(t[i-1])
			nextOK := i+1 >= len(t) || !isIdentByte(t[i+1])
			if prevOK && nextOK {
				switch c {
				case 'V':
					sb.WriteString(v)
				case 'W':
					sb.WriteString(w)
				case 'X':
					sb.WriteString(x)
				}
				continue
			}
		}
		sb.WriteByte(c)
	}
	return sb.String()
}

func isIdentByte(b byte) bool {
	return b == '_' || (b >= 'a' && b <= 'z') || (b >= 'A' && b <= 'Z') || (b >= '0' && b <= '9') || b >= 0x80
}

// Matrix enumerates the typed-operand matrix.
func Matrix(emit func(string)) {
	for _, t := range Templates1 {
		for _, v := range Values {
			emit(fill(t, v, "", ""))
		}
	}
	for _, op := range binOps {
		for _, v := range Values {
			for _, w := range Values {
				emit(v + " " + op + " " + w)
			}
		}
	}
	for _, t := range Templates2 {
		for _, v := range Values {
			for _, w := range Values {
				emit(fill(t, v, w, ""))
			}
		}
	}
	for _, t := range Templates3 {
		for _, v := range ValuesSmall {
			for _, w := range ValuesSmall {
				for _, x := range ValuesSmall {
					emit(fill(t, v, w, x))
				}
			}
		}
	}
}

// MatrixOver enumerates the one-hole templates over vals, and the two-hole templates over vals x others (both orders).
func MatrixOver(vals, others []string, emit func(string)) {
	for _, t := range Templates1 {
		for _, v := range vals {
			emit(fill(t, v, "", ""))
		}
	}
	for _, op := range binOps {
		for _, v := range vals {
			for _, w := range others {
				emit(v + " " + op + " " + w)
				emit(w + " " + op + " " + v)
			}
		}
	}
	for _, t := range Templates2 {
		for _, v := range vals {
			for _, w := range others {
				emit(fill(t, v, w, ""))
				emit(fill(t, w, v, ""))
			}
		}
	}
}

// MatrixSmall is the one-hole part (used under the full flag cube).
func MatrixSmall(emit func(string)) {
	for _, t := range Templates1 {
		for _, v := range Values {
			emit(fill(t, v, "", ""))
		}
	}
}

func rep(s string, n int) string { return strings.Repeat(s, n) }

// Ladders enumerates nesting-depth and length ladders.
func Ladders(thorough bool, emit func(string)) {
	depths := []int{1, 2, 3, 5, 10, 15, 18, 19, 20, 21, 22, 23, 25}
	if thorough {
		depths = nil
		for i := 1; i <= 30; i++ {
			depths = append(depths, i)
		}
		depths = append(depths, 40, 60, 100, 200)
	}
	for _, n := range depths {
		emit(rep("(", n) + "1" + rep(")", n))
		emit(rep("[", n) + "1" + rep("]", n))
		emit(rep("{'a':", n) + "1" + rep("}", n))
		emit(rep("-(", n) + "1" + rep(")", n))
		emit(rep("if 1 {", n) + "x=1" + rep("}", n))
		emit(rep("if 0 {} else {", n) + "x=1" + rep("}", n))
		emit(rep("if 0 {} else if 1 {", n) + "x=1" + rep("}", n))
		emit("i=0; " + rep("while i<1 {", n) + "i=i+1" + rep("}", n))
		emit(rep("`{", n) + "1" + rep("}`", n))
		emit(rep("`{% ", n) + "1" + rep(" %}`", n))
		emit(rep("\x1e{", n) + "1" + rep("}\x1e", n))
		emit(rep("`{% if 1 {", n) + "1" + rep("} %}`", n))
		emit(rep("func g(){", n) + "1" + rep("}", n))
		emit(rep("(2d", n) + "6" + rep(")", n))
		emit(rep("2d(", n) + "6" + rep(")", n))
		emit("2" + rep("d6", n))
		emit(rep("[1,2,3][", n) + "0" + rep("]", n))
		emit(rep("1 ? ", n) + "2")
		emit(rep("1 ? (", n) + "2" + rep(") : 3", n))
		emit(fmt.Sprintf("i=0; while i<%d { i=i+1; if 1 { continue } }; i", n))
		emit(fmt.Sprintf("i=0; while i<%d { i=i+1; if i==%d { break } }; i", n+5, n))
		emit(fmt.Sprintf("func g(){ i=0; while i<%d { i=i+1; if i==%d { return i } }; 0 }; g()", n+5, n))
		emit(fmt.Sprintf("i=0; while i<%d { i=i+1; if 1 { if 1 { continue } } }; i", n))
		emit(fmt.Sprintf("i=0; while i<%d { i=i+1; `{%% if 1 { continue } %%}` }; i", n))
		emit(fmt.Sprintf("func g(n){ if n <= 0 { return 0 }; g(n-1) }; g(%d)", n))
		emit(fmt.Sprintf("func g(n){ n <= 0 ? 0 : g(n-1) + 1 }; g(%d)", n*10))
		// the same sub-container twice per level: the value is a DAG of depth n whose full expansion has 2^n leaves
		emit(fmt.Sprintf("a=[1]; i=0; while i<%d { a=[a,a]; i=i+1 }; a", n))
		emit(fmt.Sprintf("v={'k':1}; i=0; while i<%d { v={'x':v,'y':v}; i=i+1 }; v", n))
		emit(fmt.Sprintf("a=[1]; i=0; while i<%d { a=[a,a]; i=i+1 }; [toStr(a).len(), repr(a).len(), `{a}`.len()]", n))
		emit(fmt.Sprintf("a=[1]; i=0; while i<%d { a=[a,a]; i=i+1 }; a == a", n))
		emit(fmt.Sprintf("a=[1]; i=0; while i<%d { a=[a,a]; i=i+1 }; &c = a; c", n))
		emit(rep("x = ", n) + "1")
		emit(rep("x.a = ", n) + "1")
		emit("x={};" + rep("x.a = ", n) + "1")
		emit("x=[1];" + rep("x[0] = ", n) + "1")
		emit(rep("&a", 1) + rep(".x", n))
		emit("a = {'x': 1}; a" + rep(".x", n))
		emit(rep("a:", n) + "b")
		emit("^st" + rep("力量60", n))
		emit("^st" + rep("力量+1 ", n))
		emit("^st" + rep("&a=1d6 ", n))
	}
	lens := []int{10, 100, 1000, 5000}
	if thorough {
		lens = append(lens, 8191, 8192, 8193, 10000, 20000)
	}
	for _, n := range lens {
		emit("1" + rep("+1", n))
		emit("1" + rep(";1", n))
		emit("1" + rep("\n1", n))
		emit("[1" + rep(",1", n) + "]")
		emit("{'a':1" + rep(",'a':1", n) + "}")
		emit("ceil(1" + rep(",1", n) + ")")
		emit("0" + rep("||0", n))
		emit("1" + rep("&&1", n))
		emit("0 ? 1" + rep(", 0 ? 1", n))
		emit("'" + rep("a", n) + "'")
		emit("`" + rep("{1}", n) + "`")
		emit(rep("x", n))
		emit(rep("1", n))
		emit("0." + rep("1", n))
		emit(rep(" ", n) + "1")
		emit("1" + rep(" ", n))
		emit("// " + rep("c", n) + "\n1")
		emit(rep("//c\n", n) + "1")
		emit("x=1" + rep("+x", n))
		emit(rep("-", n) + "1")
		emit("1" + rep("d1", n))
		emit("^st" + rep("a1", n))
		emit(rep("if 1 {} ", n))
		emit("func g(" + strings.TrimSuffix(rep("a,", n), ",") + "){}")
	}
	// size ladders for strings and arrays
	sizes := []int{0, 1, 2, 31, 32, 33, 48, 64, 128, 511, 512, 513}
	for _, n := range sizes {
		offs := []int{-n - 1, -n, -1, 0, n - 1, n, n + 1}
		for _, i := range offs {
			emit(fmt.Sprintf("s='a'*1; s=''; i=0; while i<%d {s=s+'a'; i=i+1}; s[%d]", n, i))
			emit(fmt.Sprintf("s=''; i=0; while i<%d {s=s+'中'; i=i+1}; s[%d:]", n, i))
			emit(fmt.Sprintf("s=''; i=0; while i<%d {s=s+'a'; i=i+1}; s[:%d]", n, i))
			if n >= 1 && n <= 512 {
				emit(fmt.Sprintf("x=[1..%d]; x[%d]", n, i))
				emit(fmt.Sprintf("x=[1..%d]; x[%d:]", n, i))
				emit(fmt.Sprintf("x=[1..%d]; x[:%d]", n, i))
				emit(fmt.Sprintf("x=[1..%d]; x[%d]=0; x.len()", n, i))
				emit(fmt.Sprintf("x=[1..%d]; x[%d:]=[7,8]; x.len()", n, i))
				emit(fmt.Sprintf("x=[1..%d]; x.kh(%d)", n, i))
				emit(fmt.Sprintf("x=[1..%d]; x.randSize(%d).len()", n, i))
				emit(fmt.Sprintf("x=[1..%d]; x.push(1); x.len()", n))
				emit(fmt.Sprintf("x=[1..%d]; (x+x).len()", n))
				emit(fmt.Sprintf("x=[1..%d]; (x*2).len()", n))
				emit(fmt.Sprintf("x=[1..%d]; x kh %d", n, n+1))
			}
		}
	}
	// big magnitudes in dice positions
	mags := []string{"20", "512", "513", "1000", "8192", "20000", "20001", "30001", "1000000", "1000000000", "2147483647", "2147483648", "4611686018427387904", "9223372036854775807", "9223372036854775808", "99999999999999999999"}
	for _, m := range mags {
		for _, t := range []string{"Md6", "2dM", "MdM", "2d6kM", "3d6dlM", "2d6minM", "2d6maxM", "bM", "pM", "Ma10", "2aM", "2a10mM", "2a10kM", "2a2mM", "Mc10", "2cM", "2c2mM", "2c10mM", "[1..M]", "[M..1]", "[1,2]*M", "[1,2,3].kh(M)", "[1,2,3].randSize(M)", "'abc'[M]", "[1,2][M]", "'abc'[0:M]", "x=[1]; x[M:]=[2]; x", "2**M", "M**M", "M*M", "M+M", "-M", "M%7", "toStr(M)", "M.5", "1.M", "dM", "Md", "^stA:M", "{M: 1}", "M ?? 1", "ceil(M.5)", "toInt('M')", "toFloat('M')"} {
			emit(strings.ReplaceAll(t, "M", m))
		}
	}
}

// StatePool is a pool of programs that leave interesting state behind (used for
// histories: the second run of a pair sees what the first one left).
var StatePool = []string{
	"x = 0", "x = 3", "x = -2", "x = 1.5", "x = ''", "x = 'ab'", "x = null", "x = []", "x = [1,2]", "x = {}", "x = {'k':1}",
	"func x(){1}", "func x(a){a+1}", "func x(a,b){a+b}", "x = ceil", "x = [1,2].sum", "&x = 1+1", "&x = x", "&x = y; &y = x", "&x = 2d6; &x.k = 1",
	"x = [1]; x.push(x)", "x = {}; x.k = x", "x = [1]; y = {'a':x}; x.push(y)", "x = [1,2]; y = x", "x = {'__proto__': {'a': 1}}", "x = {'__proto__': 1}",
	"x = [1,2,3]; x.pop(); x.shift()", "d = 5", "a = 5", "b = 5", "c = 5", "f = 5", "p = 5", "k = 5", "q = 5", "m = 5",
	"d = func g(){1}", "this.x = 5", "x = this", "x = 1; x", "x", "x()", "x(1)", "x(1,2)", "x[0]", "x.k", "x.a", "x + 1", "x + x", "x == x", "-x", "`{x}`", "x ? 1 : 2",
	"x.push(1)", "x.k = 2", "x[0] = 2", "x['k'] = 2", "x[0:1] = [5]", "x.len()", "x.keys()", "x.compute()", "&x", "&x.k", "toStr(x)", "repr(x)", "dir(x)", "typeId(x)", "load('x')", "loadRaw('x')", "store('x', 1)",
	"2dx", "xd6", "dx", "x a 10", "2d", "d", "b", "p", "f", "2a10", "2c10", "y = x; y", "[x, x]", "{'a': x}", "x = x", "x = [x]", "1 +", "x = (", "1/0", "x = 1; 1/0", "[1,2,3][9]", "while x { x = 0 }", "if x { 1 } else { 2 }",
	"^stx:1", "^stx+1", "^st&x=x",
	"y = [1]; y.push(y); x == y", "y = {}; y.k = y; x == y", "x == x", "x != [1]", "y = {'k': x}; x == y", "x = {}; x.__proto__ = x; x.zz", "x.zz", "x.zz()", "y = {'__proto__': x}; x.__proto__ = y; y.zz", "y = {'__proto__': x}; y.zz",
	"1 + 2 + 3 + 4 + 2d", "x = [1, 2, 3]; x[0] + x[1] + d优势 + 技能", "(", "'", "`{",
	"x = {}; y = {'__proto__': x}; x.__proto__ = {'__proto__': x}; z = {'__proto__': y}; z.nope", "y = {}; z = {'__proto__': y}; y.__proto__ = z; x = {'__proto__': {'__proto__': z}}; x.nope", "x.nope", "x.nope()",
	"x = {'__proto__': {'__proto__': {'a': 1}}}; x.a", "toStr(x)", "[x] == [x]", "x = [x, x]; x == x", "i = 0; while i < 3 { func gg() { break }; i = i + 1 }", "while x { func gg() { continue }; x = 0 }", "func gg() { while 1 { func hh() { break }; break } }; gg()",
}

// Histories enumerates ordered pairs from the pool.
func Histories(emit func(a, b string)) {
	for _, a := range StatePool {
		for _, b := range StatePool {
			emit(a, b)
		}
	}
}
