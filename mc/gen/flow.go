package gen

// ControlFlow enumerates statement programs exercising every control-flow
// construct (if / else / else-if / while / break / continue / return, ternary
// and logical operators, template blocks, functions), nesting depth <= 2.
func ControlFlow(thorough bool, emit func(string)) {
	atoms := []string{"x = x + 1", "y = 0", "x", "break", "continue", "return x", "x < 2 ? 1 : 2", "x || y", "x && y", "`a{x}`", "`{% if x {1} %}`", "2d1", "x < 2 ? 1, y ? 2", "[x, y][0]"}
	small := []string{"x = x + 1", "break", "continue", "return x", "x", "`{% if x < 2 { continue } %}`", "`{% break %}`", "`a{ continue }b`"}
	conds := []string{"x < 3", "0", "1"}
	var bodies []string
	for _, a := range small {
		bodies = append(bodies, a)
		for _, b := range small {
			bodies = append(bodies, a+"; "+b)
		}
	}
	var d1 []string
	for _, c := range conds {
		for _, b := range bodies {
			d1 = append(d1, "if "+c+" { "+b+" }")
			if c != "1" {
				d1 = append(d1, "while "+c+" { "+b+" }")
			}
		}
	}
	for _, c := range conds[:2] {
		for _, b := range bodies {
			for _, e := range small {
				d1 = append(d1, "if "+c+" { "+b+" } else { "+e+" }")
			}
		}
		for _, b := range small {
			for _, e := range small {
				d1 = append(d1, "if "+c+" { "+b+" } else if x < 1 { "+e+" } else { x }")
			}
		}
	}
	d1 = append(d1, "while x < 3 { x = x + 1; func g() { break } }", "while x < 3 { x = x + 1; func g() { if 1 { continue } }; g() }", "while x < 3 { x = x + 1; func g() { while 1 { break }; 1 }; g() }", "func g() { while x < 3 { x = x + 1; func h() { return 1 }; if h() { break } } }; g()",
		"while x < 3 { x = x + 1; &cc = x; cc }", "if x < 3 {}", "if 0 {} else {}", "while 0 {}", "if x < 3 { } else if 1 { }", "func g(a){ a + 1 }; g(x)", "func g(){ return 1; 2 }; g()", "func g(a){ if a { return 1 }; 2 }; g(x)", "func g(){ while 1 { return 5 } }; g()", "`{% x = x + 1 %}{x}`", "`{% if x {1} else {2} %}`", "`{% while x < 2 { x = x + 1 } %}`")
	wrap := func(s string) {
		emit("x = 0; " + s)
		emit("x = 0; " + s + "; x")
		emit("x = 5; y = 1; " + s)
	}
	for _, a := range atoms {
		wrap(a)
	}
	for _, s := range d1 {
		wrap(s)
	}
	// two compound statements in one loop body: a finished inner loop / if followed by an if that leaves the outer loop
	inner := []string{"while y < 1 { y = y + 1 }", "while 0 { }", "if y { y = 0 }", "if 0 { } else { y = 1 }", "`{% if y { 1 } %}`", "y = 0; while y < 2 { y = y + 1; if y { break } }", "while y < 1 { y = y + 1; continue }"}
	leave := []string{"if x > 1 { break }", "if x > 1 { continue }", "if x > 1 { if 1 { break } }", "if x > 1 { x } else { continue }", "`{% if x > 1 { break } %}`", "if x > 1 { return x }"}
	for _, in := range inner {
		for _, lv := range leave {
			wrap("while x < 30 { x = x + 1; " + in + "; " + lv + " }")
			wrap("while x < 30 { x = x + 1; " + lv + "; " + in + " }")
			wrap("func g(){ while x < 30 { x = x + 1; " + in + "; " + lv + " }; x }; g()")
		}
	}
	// a loop body with a leave (break / continue / return, inside an if or a template block) and the DEFINITION of a nested body
	// (function, computed value, template in a computed value) that has a loop / a leave of its own, in both orders
	nested := []string{"func h(n) { while n > 0 { n = n - 1 } }", "func h(n) { while n > 0 { n = n - 1; if n == 1 { break } }; n }", "&cv = `{% while y < 1 { y = y + 1 } %}`", "func h() { while 1 { if 1 { break } } }; h()",
		"&cv = `{% y = 0; while y < 2 { y = y + 1; if y { continue } } %}`; cv", "func h() { func k() { while 0 {} }; k() }; h()"}
	for _, nb := range nested {
		for _, lv := range leave {
			wrap("while x < 30 { x = x + 1; " + lv + "; " + nb + " }")
			wrap("while x < 30 { x = x + 1; " + nb + "; " + lv + " }")
			wrap("while x < 30 { x = x + 1; " + lv + "; " + nb + "; " + lv + " }")
		}
	}
	// depth 2: a depth-1 statement inside a loop / branch
	step := 5
	if thorough {
		step = 1
	}
	for i, s := range d1 {
		if i%step != 0 {
			continue
		}
		for _, c := range conds[:2] {
			wrap("while " + c + " { x = x + 1; " + s + " }")
			wrap("while " + c + " { " + s + "; x = x + 1 }")
			wrap("if " + c + " { " + s + " } else { x }")
			wrap("if " + c + " { x } else { " + s + " }")
			wrap("func g(x){ " + s + "; x }; g(1)")
		}
	}
}
