// Package gen holds the bounded-exhaustive generators (token strings, typed
// operand matrix, ladders, program pools). Everything is a pure function of
// its arguments: the enumeration order is deterministic.
package gen

import "strings"

// TokensFull is the rich token alphabet of C01.
var TokensFull = []string{
	"1", "0", "2", "10", "1.5",
	"x", "y", "a", "b", "c", "d", "f", "p", "k", "q", "m", "技能",
	"+", "-", "*", "/", "%", "^", "**", "??", "==", "!=", "<", ">=", "&&", "||", "&", "|", "?", ":", "=", ",",
	"(", ")", "[", "]", "{", "}",
	"'", "\"", "`", "\x1e",
	";", "\n", " ", ".", "..",
	"if ", "else ", "while ", "func ", "return ", "break", "continue", "this", "true", "null",
	"//", "// #EnableDice coc true\n", "^st", "{%", "%}", "\\", "中", "\xff",
	"kh", "kl", "dh", "dl", "min", "max", "优势", "D",
}

// TokensCore is the reduced alphabet used for the longer strings.
var TokensCore = []string{
	"1", "2", "x", "a", "d", "f", "b", "k", "m", "c",
	"+", "-", "*", "=", "==", "?", ":", ",", "&", ".",
	"(", ")", "[", "]", "{", "}", "'", "`", ";", "\n", " ",
	"if ", "while ", "func ", "return ", "break", "^st", "{%", "%}", "\\",
}

// TokensTiny for length-4/5 strings.
var TokensTiny = []string{
	"1", "x", "d", "a", "+", "-", "=", "?", ":", ",", ".", "(", ")", "[", "]", "{", "}", "'", "`", ";", "\n", " ", "if ", "while ", "&",
}

// Strings enumerates every concatenation of exactly n tokens of alpha.
func Strings(alpha []string, n int, emit func(string)) {
	idx := make([]int, n)
	var sb strings.Builder
	for {
		sb.Reset()
		for _, i := range idx {
			sb.WriteString(alpha[i])
		}
		emit(sb.String())
		p := n - 1
		for p >= 0 {
			idx[p]++
			if idx[p] < len(alpha) {
				break
			}
			idx[p] = 0
			p--
		}
		if p < 0 {
			return
		}
	}
}

// StringsUpTo enumerates lengths 0..n.
func StringsUpTo(alpha []string, n int, emit func(string)) {
	emit("")
	for k := 1; k <= n; k++ {
		Strings(alpha, k, emit)
	}
}
