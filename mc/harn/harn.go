// Package harn is the process model shared by every check: deterministic
// enumeration sharded over worker subprocesses, journal attribution of fatal
// exits, known-finding matching, replay artefacts and evidence files.
package harn

import (
	"bufio"
	"bytes"
	"crypto/sha1"
	"encoding/hex"
	"encoding/json"
	"fmt"
	"io"
	"os"
	"os/exec"
	"path/filepath"
	"runtime"
	"runtime/debug"
	"sort"
	"strconv"
	"strings"
	"sync"
	"syscall"
	"time"
)

// Violation is one failed oracle on one case.
type Violation struct {
	Signature string          `json:"signature"` // matched against known_findings.jsonl
	What      string          `json:"what"`
	Case      json.RawMessage `json:"case"`
}

// Result of running one case.
type Result struct {
	Violations []Violation
	Nontrivial bool
	Outcome    string           // coarse outcome class (vacuity alarm: >1 class must occur)
	Stats      map[string]int64 // additive counters
	Sample     string           // optional rendering for evidence samples
}

// Check is one property's machinery.
type Check struct {
	ID        string
	Level     string // evidence level
	Rule      string
	Assume    []string
	Enumerate func(tier string, seed int64, emit func(stratum string, c any))
	Run       func(raw json.RawMessage) Result
	// Whole, when set, replaces the sharded enumeration: the check runs in one
	// worker process (it may start its own goroutines) and reports via Ctx.
	Whole func(tier string, seed int64, ctx *WholeCtx)
	// CaseTimeout per case (default 60s); Budget wall budget for the enumeration per tier.
	CaseTimeout time.Duration
	Budget      map[string]time.Duration
	NoRlimit    bool
	// Phases: the enumeration is run once per phase; each phase selects strata (substring match) and may use
	// another worker executable (e.g. a -race build). nil = one phase over everything with this executable.
	Phases []Phase
	// MinOutcomes: vacuity threshold on distinct outcome classes (default 2).
	MinOutcomes int
	// Extra evidence computed by parent from summed stats.
	Extra func(stats map[string]int64, cov map[string]any)
}

// Phase of a check run.
type Phase struct {
	Only     string // strata containing this substring ("" = all)
	Skip     string // strata containing this substring are left out ("" = none)
	Exe      string // worker executable relative to /verif/bin ("" = this executable)
	Procs    int    // GOMAXPROCS of each worker (0 = 1)
	NoRlimit bool
	Env      []string
}

var Registry = map[string]*Check{}

func Register(c *Check) { Registry[c.ID] = c }

// WholeCtx lets a Whole-style check report.
type WholeCtx struct {
	mu      sync.Mutex
	out     *bufio.Writer
	Stats   map[string]int64
	samples []string
}

func (w *WholeCtx) Add(k string, n int64) {
	w.mu.Lock()
	w.Stats[k] += n
	w.mu.Unlock()
}
func (w *WholeCtx) Sample(s string) {
	w.mu.Lock()
	if len(w.samples) < 12 {
		w.samples = append(w.samples, s)
	}
	w.mu.Unlock()
}
func (w *WholeCtx) Violate(v Violation) {
	w.mu.Lock()
	b, _ := json.Marshal(v)
	fmt.Fprintf(w.out, "V %s\n", b)
	w.out.Flush()
	w.mu.Unlock()
}

// VerifDir is where evidence, replays and known_findings.jsonl live (run.sh exports VERIF_DIR = its own directory,
// so a background run from a snapshot of /verif writes into the snapshot, not into /verif).
var VerifDir = func() string {
	if d := os.Getenv("VERIF_DIR"); d != "" {
		return d
	}
	return "/verif"
}()

type knownEntry struct {
	Status    string `json:"status"` // known | fixed
	Property  string `json:"property"`
	Signature string `json:"signature"`
	Example   string `json:"example"`
	Why       string `json:"why"`
	Commit    string `json:"commit,omitempty"`
}

func loadKnown(id string) map[string]knownEntry {
	out := map[string]knownEntry{}
	f, err := os.Open(filepath.Join(VerifDir, "known_findings.jsonl"))
	if err != nil {
		return out
	}
	defer f.Close()
	sc := bufio.NewScanner(f)
	sc.Buffer(make([]byte, 1<<20), 1<<20)
	for sc.Scan() {
		line := strings.TrimSpace(sc.Text())
		if line == "" || strings.HasPrefix(line, "#") {
			continue
		}
		var e knownEntry
		if json.Unmarshal([]byte(line), &e) != nil {
			continue
		}
		if e.Property == id && e.Status == "known" {
			out[e.Signature] = e
		}
	}
	return out
}

// PanicSite turns a recovered panic + stack into a stable signature.
func PanicSite(r any, stack []byte) string {
	msg := fmt.Sprint(r)
	// normalise numbers
	var sb strings.Builder
	for _, ch := range msg {
		if ch >= '0' && ch <= '9' {
			if !strings.HasSuffix(sb.String(), "N") {
				sb.WriteByte('N')
			}
			continue
		}
		sb.WriteRune(ch)
	}
	msg = sb.String()
	if len(msg) > 60 {
		msg = msg[:60]
	}
	var frames []string
	for _, ln := range strings.Split(string(stack), "\n") {
		if strings.HasPrefix(ln, "github.com/sealdice/dicescript.") {
			fn := strings.TrimPrefix(ln, "github.com/sealdice/dicescript.")
			if i := strings.LastIndex(fn, "("); i > 0 {
				fn = fn[:i]
			}
			// strip closure numbering noise
			if len(frames) == 0 || frames[len(frames)-1] != fn {
				frames = append(frames, fn)
			}
			if len(frames) == 2 {
				break
			}
		}
	}
	return "panic@" + strings.Join(frames, "<-") + ": " + msg
}

// Guard runs f and converts a panic into (site, true).
func Guard(f func()) (site string, panicked bool) {
	defer func() {
		if r := recover(); r != nil {
			site = PanicSite(r, debug.Stack())
			panicked = true
		}
	}()
	f()
	return "", false
}

// ---------------------------------------------------------------- entry point

func Main() {
	args := os.Args[1:]
	if len(args) < 1 {
		fmt.Fprintln(os.Stderr, "usage: check <ID> [--tier quick|thorough] [--replay path]")
		os.Exit(2)
	}
	id := args[0]
	c, ok := Registry[id]
	if !ok {
		fmt.Fprintf(os.Stderr, "unknown check %s\n", id)
		os.Exit(2)
	}
	tier := os.Getenv("VERIF_TIER")
	if tier == "" {
		tier = "quick"
	}
	var replay, worker string
	startAfter := int64(-1)
	onlyIndex = -1
	for i := 1; i < len(args); i++ {
		switch args[i] {
		case "--tier":
			i++
			tier = args[i]
		case "--replay":
			i++
			replay = args[i]
		case "--worker":
			i++
			worker = args[i]
		case "--start-after":
			i++
			startAfter, _ = strconv.ParseInt(args[i], 10, 64)
		case "--only-index":
			i++
			onlyIndex, _ = strconv.ParseInt(args[i], 10, 64)
		case "quick", "thorough":
			tier = args[i]
		}
	}
	seed, _ := strconv.ParseInt(os.Getenv("VERIF_SEED"), 10, 64)
	switch {
	case replay != "":
		os.Exit(runReplay(c, replay))
	case worker != "":
		runWorker(c, tier, seed, worker, startAfter)
	default:
		os.Exit(runParent(c, tier, seed))
	}
}

// onlyIndex >= 0: the worker runs exactly that enumeration index (confirmation of a fatal exit in a fresh process)
var onlyIndex int64 = -1

func runReplay(c *Check, path string) int {
	b, err := os.ReadFile(path)
	if err != nil {
		fmt.Fprintln(os.Stderr, err)
		return 2
	}
	var v Violation
	if err := json.Unmarshal(b, &v); err != nil || v.Case == nil {
		fmt.Fprintln(os.Stderr, "bad replay file")
		return 2
	}
	if c.Run == nil {
		fmt.Fprintln(os.Stderr, "check has no per-case replay")
		return 2
	}
	res := c.Run(v.Case)
	if len(res.Violations) == 0 {
		fmt.Println("replay: no violation reproduced")
		return 0
	}
	for _, x := range res.Violations {
		fmt.Printf("replay: %s\n  %s\n", x.Signature, x.What)
	}
	fmt.Printf("VIOLATION property=%s replay=%s\n", c.ID, path)
	return 1
}

func setRlimit() {
	lim := uint64(3) << 30
	if s := os.Getenv("VERIF_RLIMIT_MB"); s != "" {
		if n, err := strconv.ParseUint(s, 10, 64); err == nil {
			lim = n << 20
		}
	}
	_ = syscall.Setrlimit(9 /*RLIMIT_AS*/, &syscall.Rlimit{Cur: lim, Max: lim})
}

type workerSummary struct {
	Evaluations int64            `json:"evaluations"`
	Nontrivial  int64            `json:"nontrivial"`
	Stats       map[string]int64 `json:"stats"`
	Outcomes    []string         `json:"outcomes"`
	OutcomeN    map[string]int64 `json:"outcome_n,omitempty"`
	ByStratum   map[string]int64 `json:"by_stratum,omitempty"` // "stratum | outcome" -> cases
	Samples     []string         `json:"samples"`
	Strata      map[string]int64 `json:"strata"`
	TimedOut    bool             `json:"timed_out"`
	DoneAll     bool             `json:"done_all"`
}

func runWorker(c *Check, tier string, seed int64, spec string, startAfter int64) {
	if !c.NoRlimit && os.Getenv("VERIF_NO_RLIMIT") == "" {
		setRlimit()
	}
	debug.SetMaxStack(256 << 20)
	parts := strings.Split(spec, "/")
	wi, _ := strconv.Atoi(parts[0])
	wn, _ := strconv.Atoi(parts[1])
	out := bufio.NewWriterSize(os.Stdout, 1<<16)
	sum := workerSummary{Stats: map[string]int64{}, Strata: map[string]int64{}}
	outcomes := map[string]bool{}

	if c.Whole != nil {
		ctx := &WholeCtx{out: out, Stats: map[string]int64{}}
		c.Whole(tier, seed, ctx)
		sum.Stats = ctx.Stats
		sum.Evaluations = ctx.Stats["evaluations"]
		sum.Nontrivial = ctx.Stats["nontrivial"]
		sum.Samples = ctx.samples
		sum.DoneAll = ctx.Stats["not_exhaustive"] == 0
		b, _ := json.Marshal(sum)
		fmt.Fprintf(out, "S %s\n", b)
		out.Flush()
		return
	}

	budget := 100 * time.Hour
	if b, ok := c.Budget[tier]; ok {
		budget = b
	}
	if s := os.Getenv("VERIF_BUDGET_S"); s != "" {
		if n, err := strconv.Atoi(s); err == nil {
			budget = time.Duration(n) * time.Second
		}
	}
	start := time.Now()
	caseTimeout := c.CaseTimeout
	if caseTimeout == 0 {
		caseTimeout = 60 * time.Second
	}
	// watchdog
	var wdMu sync.Mutex
	var wdIdx int64 = -1
	var wdStart time.Time
	go func() {
		for {
			time.Sleep(500 * time.Millisecond)
			wdMu.Lock()
			idx, st := wdIdx, wdStart
			wdMu.Unlock()
			if idx >= 0 && time.Since(st) > caseTimeout {
				fmt.Fprintf(os.Stderr, "WATCHDOG case %d exceeded %v\n", idx, caseTimeout)
				os.Exit(98)
			}
			var ms runtime.MemStats
			runtime.ReadMemStats(&ms)
			if ms.HeapAlloc > 2<<30 {
				fmt.Fprintf(os.Stderr, "HEAPWATCH case %d heap %d\n", idx, ms.HeapAlloc)
				os.Exit(97)
			}
		}
	}()

	only := os.Getenv("VERIF_ONLY")
	skip := os.Getenv("VERIF_SKIP")
	if s := os.Getenv("VERIF_CASE_TIMEOUT_S"); s != "" {
		if n, err := strconv.Atoi(s); err == nil {
			caseTimeout = time.Duration(n) * time.Second
		}
	}
	var idx int64 = -1
	stop := false
	jbuf := make([]byte, 0, 32)
	c.Enumerate(tier, seed, func(stratum string, cs any) {
		idx++
		if stop {
			return
		}
		if onlyIndex >= 0 {
			if idx != onlyIndex {
				return
			}
		} else if idx%int64(wn) != int64(wi) || idx <= startAfter {
			return
		}
		if only != "" && !strings.Contains(stratum, only) {
			return
		}
		if skip != "" && strings.Contains(stratum, skip) {
			return
		}
		if sum.Evaluations&63 == 0 && time.Since(start) > budget {
			stop = true
			sum.TimedOut = true
			return
		}
		raw, err := json.Marshal(cs)
		if err != nil {
			panic(err)
		}
		// journal before executing (unbuffered: survives a fatal exit)
		out.Flush()
		jbuf = append(jbuf[:0], 'J', ' ')
		jbuf = strconv.AppendInt(jbuf, idx, 10)
		jbuf = append(jbuf, '\n')
		os.Stdout.Write(jbuf)
		wdMu.Lock()
		wdIdx, wdStart = idx, time.Now()
		wdMu.Unlock()

		res := c.Run(raw)

		wdMu.Lock()
		wdIdx = -1
		wdMu.Unlock()
		if sum.Evaluations&15 == 0 {
			// memory hygiene: a big parse leaves ~1 GB of garbage behind; give it back before the next case is blamed for it
			var ms runtime.MemStats
			runtime.ReadMemStats(&ms)
			if ms.HeapSys-ms.HeapReleased > 1<<30 {
				debug.FreeOSMemory()
			}
		}
		sum.Evaluations++
		sum.Strata[stratum]++
		if res.Nontrivial {
			sum.Nontrivial++
		}
		for k, v := range res.Stats {
			sum.Stats[k] += v
		}
		if res.Outcome != "" && (len(outcomes) < 64 || outcomes[res.Outcome]) {
			outcomes[res.Outcome] = true
			if sum.OutcomeN == nil {
				sum.OutcomeN = map[string]int64{}
			}
			sum.OutcomeN[res.Outcome]++
			if sum.ByStratum == nil {
				sum.ByStratum = map[string]int64{}
			}
			if k := stratum + " | " + res.Outcome; len(sum.ByStratum) < 400 || sum.ByStratum[k] > 0 {
				sum.ByStratum[k]++
			}
		}
		if len(sum.Samples) < 6 && (res.Nontrivial || sum.Evaluations < 3) && sum.Evaluations%7 == 1 {
			s := res.Sample
			if s == "" {
				s = string(raw)
			}
			if len(s) > 300 {
				s = s[:300] + "…"
			}
			sum.Samples = append(sum.Samples, s)
		}
		if len(res.Violations) > 0 {
			// confirm determinism: re-run twice more
			for rep := 0; rep < 2; rep++ {
				r2 := c.Run(raw)
				if !sameSigs(res.Violations, r2.Violations) {
					fmt.Fprintf(out, "F %d %s\n", idx, raw)
					break
				}
			}
			for _, v := range res.Violations {
				if v.Case == nil {
					v.Case = raw
				}
				b, _ := json.Marshal(v)
				fmt.Fprintf(out, "V %s\n", b)
			}
		}
	})
	sum.DoneAll = !stop
	for k := range outcomes {
		sum.Outcomes = append(sum.Outcomes, k)
	}
	b, _ := json.Marshal(sum)
	fmt.Fprintf(out, "S %s\n", b)
	out.Flush()
}

func sameSigs(a, b []Violation) bool {
	sa, sb := map[string]bool{}, map[string]bool{}
	for _, v := range a {
		sa[v.Signature] = true
	}
	for _, v := range b {
		sb[v.Signature] = true
	}
	if len(sa) != len(sb) {
		return false
	}
	for k := range sa {
		if !sb[k] {
			return false
		}
	}
	return true
}

// ---------------------------------------------------------------- parent

type parentState struct {
	mu          sync.Mutex
	viol        map[string][]Violation // by signature
	flaky       []string
	sums        []workerSummary
	fatals      int
	unconfirmed int
	abandoned   int // shards given up after a dozen fatal exits
	confirmed   map[string]int // fatal exits reproduced alone, by signature
	machineErr  []string
}

func classifyFatal(stderr string, code int) string {
	switch {
	case strings.Contains(stderr, "WARNING: DATA RACE"):
		return "data-race: " + raceSite(stderr)
	case strings.Contains(stderr, "WATCHDOG"):
		return "hang: case exceeded watchdog"
	case strings.Contains(stderr, "HEAPWATCH"), strings.Contains(stderr, "out of memory"), strings.Contains(stderr, "cannot allocate memory"):
		return "fatal: out of memory"
	case strings.Contains(stderr, "stack overflow"), strings.Contains(stderr, "stack exceeds"):
		return "fatal: stack overflow"
	case strings.Contains(stderr, "fatal error:"):
		i := strings.Index(stderr, "fatal error:")
		ln := stderr[i:]
		if j := strings.Index(ln, "\n"); j > 0 {
			ln = ln[:j]
		}
		return ln
	}
	return fmt.Sprintf("fatal: worker exit %d", code)
}

// raceSite extracts the first repository frames of both accesses of a race report.
func raceSite(stderr string) string {
	var frames []string
	for _, ln := range strings.Split(stderr, "\n") {
		ln = strings.TrimSpace(ln)
		if strings.HasPrefix(ln, "github.com/sealdice/dicescript.") || strings.HasPrefix(ln, "golang.org/x/exp/rand.") {
			fn := ln
			if i := strings.LastIndex(fn, "("); i > 0 {
				fn = fn[:i]
			}
			fn = strings.TrimPrefix(fn, "github.com/sealdice/dicescript.")
			if len(frames) == 0 || frames[len(frames)-1] != fn {
				frames = append(frames, fn)
			}
			if len(frames) >= 2 {
				break
			}
		}
		if strings.HasPrefix(ln, "Goroutine") && len(frames) > 0 {
			break
		}
	}
	return strings.Join(frames, " <- ")
}

func runParent(c *Check, tier string, seed int64) int {
	t0 := time.Now()
	self, _ := os.Executable()
	wn := 14
	if s := os.Getenv("VERIF_WORKERS"); s != "" {
		if n, err := strconv.Atoi(s); err == nil && n > 0 {
			wn = n
		}
	}
	if c.Whole != nil {
		wn = 1
	}
	st := &parentState{viol: map[string][]Violation{}, confirmed: map[string]int{}}
	phases := c.Phases
	if len(phases) == 0 {
		phases = []Phase{{}}
	}
	for _, ph := range phases {
		ph := ph
		var wg sync.WaitGroup
		for wi := 0; wi < wn; wi++ {
			wg.Add(1)
			go func(wi int) {
				defer wg.Done()
				startAfter := int64(-1)
				for attempt := 0; ; attempt++ {
					if attempt >= 12 {
						// a dozen fatal exits in one shard: the verdict is settled, the rest of the shard is not explored
						st.mu.Lock()
						st.abandoned++
						st.mu.Unlock()
						return
					}
					done, last, why := superviseWorker(c, self, tier, seed, wi, wn, startAfter, st, ph)
					if done {
						return
					}
					// fatal exit attributed to case `last`
					st.mu.Lock()
					st.fatals++
					st.mu.Unlock()
					if last < 0 || last <= startAfter {
						st.mu.Lock()
						st.machineErr = append(st.machineErr, fmt.Sprintf("worker %d died outside a case: %s", wi, why))
						st.mu.Unlock()
						return
					}
					raw := findCase(c, tier, seed, last)
					// a fatal exit counts only if the same case dies again ALONE in a fresh process (an overloaded machine
					// can kill an innocent case: accumulated garbage, a stalled scheduler)
					st.mu.Lock()
					settled := st.confirmed[why] >= 3 // the same kind of death already reproduced alone three times: no need to re-confirm every further one
					st.mu.Unlock()
					if settled {
						// fall through to recording
					} else if ok, vs := confirmAlone(c, self, tier, seed, last, ph); ok {
						fmt.Fprintf(os.Stderr, "worker %d died on case #%d (%s) but the case completes alone: not counted\n", wi, last, why)
						st.mu.Lock()
						st.unconfirmed++
						for _, v := range vs {
							st.viol[v.Signature] = append(st.viol[v.Signature], v)
						}
						st.mu.Unlock()
						startAfter = last
						continue
					}
					st.mu.Lock()
					st.confirmed[why]++
					st.mu.Unlock()
					fmt.Fprintf(os.Stderr, "worker %d died on case #%d (%s): %s\n", wi, last, why, trunc(string(raw), 300))
					v := Violation{Signature: why, What: fmt.Sprintf("worker process died while running case #%d: %s", last, why), Case: raw}
					st.mu.Lock()
					st.viol[v.Signature] = append(st.viol[v.Signature], v)
					st.mu.Unlock()
					startAfter = last
				}
			}(wi)
		}
		wg.Wait()
	}
	return finish(c, tier, seed, st, time.Since(t0))
}

// confirmAlone re-runs one enumeration index in a fresh worker; true = it completed normally.
func confirmAlone(c *Check, self, tier string, seed int64, idx int64, ph Phase) (bool, []Violation) {
	if ph.Exe != "" {
		self = filepath.Join(VerifDir, "bin", ph.Exe)
	}
	cmd := exec.Command(self, c.ID, "--tier", tier, "--worker", "0/1", "--only-index", strconv.FormatInt(idx, 10))
	gmp := "GOMAXPROCS=1"
	if ph.Procs > 0 {
		gmp = "GOMAXPROCS=" + strconv.Itoa(ph.Procs)
	}
	cmd.Env = append(os.Environ(), gmp, "VERIF_SEED="+strconv.FormatInt(seed, 10), "GOTRACEBACK=single", "VERIF_ONLY=", "VERIF_SKIP=")
	if ph.NoRlimit {
		cmd.Env = append(cmd.Env, "VERIF_NO_RLIMIT=1")
	}
	cmd.Env = append(cmd.Env, ph.Env...)
	out, err := cmd.Output()
	if err != nil || !bytes.Contains(out, []byte("\nS {")) {
		return false, nil
	}
	var vs []Violation
	for _, ln := range bytes.Split(out, []byte("\n")) {
		if len(ln) > 2 && ln[0] == 'V' {
			var v Violation
			if json.Unmarshal(ln[2:], &v) == nil {
				vs = append(vs, v)
			}
		}
	}
	return true, vs
}

func findCase(c *Check, tier string, seed int64, want int64) json.RawMessage {
	var idx int64 = -1
	var out json.RawMessage
	c.Enumerate(tier, seed, func(_ string, cs any) {
		idx++
		if idx == want {
			out, _ = json.Marshal(cs)
		}
	})
	return out
}

func superviseWorker(c *Check, self, tier string, seed int64, wi, wn int, startAfter int64, st *parentState, ph Phase) (done bool, last int64, why string) {
	args := []string{c.ID, "--tier", tier, "--worker", fmt.Sprintf("%d/%d", wi, wn), "--start-after", strconv.FormatInt(startAfter, 10)}
	if ph.Exe != "" {
		self = filepath.Join(VerifDir, "bin", ph.Exe)
	}
	cmd := exec.Command(self, args...)
	gmp := "GOMAXPROCS=1"
	if ph.Procs > 0 {
		gmp = "GOMAXPROCS=" + strconv.Itoa(ph.Procs)
	}
	if c.Whole != nil {
		gmp = "GOMAXPROCS=" + strconv.Itoa(runtime.NumCPU())
	}
	cmd.Env = append(os.Environ(), gmp, "VERIF_SEED="+strconv.FormatInt(seed, 10), "GOTRACEBACK=single")
	if ph.Only != "" || ph.Skip != "" || len(c.Phases) > 0 {
		cmd.Env = append(cmd.Env, "VERIF_ONLY="+ph.Only, "VERIF_SKIP="+ph.Skip)
	}
	if ph.NoRlimit {
		cmd.Env = append(cmd.Env, "VERIF_NO_RLIMIT=1")
	}
	cmd.Env = append(cmd.Env, ph.Env...)
	stdout, _ := cmd.StdoutPipe()
	var stderr limitedBuf
	cmd.Stderr = &stderr
	if err := cmd.Start(); err != nil {
		return false, -1, "cannot start worker: " + err.Error()
	}
	last = -1
	gotSummary := false
	rd := bufio.NewReaderSize(stdout, 1<<20)
	for {
		line, err := rd.ReadBytes('\n')
		if len(line) > 2 {
			switch line[0] {
			case 'J':
				n, _ := strconv.ParseInt(strings.TrimSpace(string(line[2:])), 10, 64)
				last = n
			case 'V':
				var v Violation
				if json.Unmarshal(line[2:], &v) == nil {
					st.mu.Lock()
					if len(st.viol[v.Signature]) < 50 {
						st.viol[v.Signature] = append(st.viol[v.Signature], v)
					} else {
						st.viol[v.Signature] = append(st.viol[v.Signature], Violation{Signature: v.Signature})
					}
					st.mu.Unlock()
				}
			case 'F':
				st.mu.Lock()
				st.flaky = append(st.flaky, strings.TrimSpace(string(line[2:])))
				st.mu.Unlock()
			case 'S':
				var s workerSummary
				if json.Unmarshal(line[2:], &s) == nil {
					st.mu.Lock()
					st.sums = append(st.sums, s)
					st.mu.Unlock()
					gotSummary = true
				}
			}
		}
		if err != nil {
			break
		}
	}
	err := cmd.Wait()
	if gotSummary && err == nil {
		return true, last, ""
	}
	code := -1
	if ee, ok := err.(*exec.ExitError); ok {
		code = ee.ExitCode()
	}
	return false, last, classifyFatal(stderr.String(), code)
}

type limitedBuf struct {
	mu  sync.Mutex
	buf bytes.Buffer
}

func (l *limitedBuf) Write(p []byte) (int, error) {
	l.mu.Lock()
	defer l.mu.Unlock()
	if l.buf.Len() < 1<<16 {
		room := 1<<16 - l.buf.Len()
		if len(p) > room {
			l.buf.Write(p[:room])
		} else {
			l.buf.Write(p)
		}
	}
	return len(p), nil
}
func (l *limitedBuf) String() string { l.mu.Lock(); defer l.mu.Unlock(); return l.buf.String() }

func finish(c *Check, tier string, seed int64, st *parentState, wall time.Duration) int {
	known := loadKnown(c.ID)
	total := workerSummary{Stats: map[string]int64{}, Strata: map[string]int64{}}
	outcomes := map[string]bool{}
	doneAll := len(st.sums) > 0 && st.abandoned == 0
	for _, s := range st.sums {
		total.Evaluations += s.Evaluations
		total.Nontrivial += s.Nontrivial
		for k, v := range s.Stats {
			total.Stats[k] += v
		}
		for k, v := range s.Strata {
			total.Strata[k] += v
		}
		for _, o := range s.Outcomes {
			outcomes[o] = true
		}
		for o, n := range s.OutcomeN {
			if total.OutcomeN == nil {
				total.OutcomeN = map[string]int64{}
			}
			total.OutcomeN[o] += n
		}
		for o, n := range s.ByStratum {
			if total.ByStratum == nil {
				total.ByStratum = map[string]int64{}
			}
			total.ByStratum[o] += n
		}
		if len(total.Samples) < 10 {
			total.Samples = append(total.Samples, s.Samples...)
		}
		if !s.DoneAll {
			doneAll = false
		}
	}
	exit := 0
	nviol := 0
	var sigs []string
	for s := range st.viol {
		sigs = append(sigs, s)
	}
	sort.Strings(sigs)
	knownSeen := map[string]int{}
	for _, sig := range sigs {
		vs := st.viol[sig]
		if k, ok := known[sig]; ok {
			knownSeen[sig] = len(vs)
			fmt.Printf("KNOWN-FINDING: property=%s %s (%d cases; e.g. %s)\n", c.ID, sig, len(vs), k.Example)
			continue
		}
		exit = 1
		nviol += len(vs)
		for i, v := range vs {
			if i >= 3 || v.Case == nil {
				break
			}
			h := sha1.Sum(append([]byte(sig), v.Case...))
			dir := filepath.Join(VerifDir, "replays", c.ID)
			os.MkdirAll(dir, 0o755)
			path := filepath.Join(dir, hex.EncodeToString(h[:6])+".json")
			b, _ := json.MarshalIndent(v, "", " ")
			os.WriteFile(path, b, 0o644)
			fmt.Printf("VIOLATION property=%s replay=%s\n", c.ID, path)
			fmt.Printf("  signature: %s\n  what: %s\n", sig, trunc(v.What, 600))
		}
		if len(vs) > 3 {
			fmt.Printf("  (+%d more cases with signature %q)\n", len(vs)-3, sig)
		}
	}
	machine := false
	if len(st.flaky) > 0 {
		fmt.Fprintf(os.Stderr, "MACHINERY ERROR: %d cases gave different verdicts on re-run, e.g. %s\n", len(st.flaky), trunc(st.flaky[0], 300))
		machine = true
	}
	for _, m := range st.machineErr {
		fmt.Fprintf(os.Stderr, "MACHINERY ERROR: %s\n", m)
		machine = true
	}
	minOut := c.MinOutcomes
	if minOut == 0 {
		minOut = 2
	}
	if c.Whole == nil && len(outcomes) < minOut && doneAll {
		fmt.Fprintf(os.Stderr, "MACHINERY ERROR: vacuous exploration: %d distinct outcome classes\n", len(outcomes))
		machine = true
	}
	// evidence
	cov := map[string]any{
		"evaluations":                      total.Evaluations,
		"distinct_nontrivial":              total.Nontrivial,
		"rule":                             c.Rule,
		"samples":                          toAny(total.Samples),
		"exhaustive":                       doneAll && !machine,
		"strata":                           total.Strata,
		"outcome_classes":                  len(outcomes),
		"outcome_histogram":                total.OutcomeN,
		"outcomes_by_stratum":              total.ByStratum,
		"known_findings_seen":              knownSeen,
		"worker_restarts":                  st.fatals,
		"fatal_exits_not_reproduced_alone": st.unconfirmed,
	}
	for k, v := range total.Stats {
		cov[k] = v
	}
	if c.Extra != nil {
		c.Extra(total.Stats, cov)
	}
	if len(total.Samples) == 0 {
		cov["samples"] = []any{"(no sample recorded)"}
	}
	level := c.Level
	if level == "" {
		level = "model_checking"
	}
	if c.Assume == nil {
		c.Assume = []string{"the harness process model (journaled worker processes) and the hooks of the verif build tag are trusted"}
	}
	ev := map[string]any{
		"property_id": c.ID, "tier": tier, "seed": seed, "level": level,
		"coverage": cov, "assumptions": c.Assume, "wall_s": wall.Seconds(), "violations": nviol,
	}
	b, _ := json.MarshalIndent(ev, "", " ")
	os.MkdirAll(filepath.Join(VerifDir, "evidence"), 0o755)
	os.WriteFile(filepath.Join(VerifDir, "evidence", c.ID+".json"), b, 0o644)
	fmt.Printf("%s tier=%s evaluations=%d nontrivial=%d outcomes=%d violations=%d known=%d exhaustive=%v wall=%.1fs\n",
		c.ID, tier, total.Evaluations, total.Nontrivial, len(outcomes), nviol, len(knownSeen), doneAll, wall.Seconds())
	if exit == 0 && machine {
		return 2
	}
	return exit
}

func toAny(s []string) []any {
	out := make([]any, len(s))
	for i, x := range s {
		out[i] = x
	}
	return out
}

func trunc(s string, n int) string {
	if len(s) > n {
		return s[:n] + "…"
	}
	return s
}

var _ = io.EOF
