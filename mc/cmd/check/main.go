package main

import (
	_ "verifmc/checks"
	"verifmc/harn"
)

func main() { harn.Main() }
