// Package absvm is the abstract stack machine of C08 (E6): for one code array
// it explores every reachable abstract state over ALL branch outcomes and
// checks the well-formedness invariants in each.
package absvm

import (
	"fmt"
	"sort"
	"strings"

	ds "github.com/sealdice/dicescript"
)

const HCap = 96   // operand-stack heights >= HCap are merged ("plenty")
const DCap = 3    // detail-span counts >= DCap are merged
const maxStates = 400000

// State is one abstract machine state.
type State struct {
	PC      int
	H       int
	Blocks  string // saved heights of open blocks, comma separated
	Fstr    string // saved heights of open template blocks
	Dice    int    // open dice states
	Details int    // detail spans so far (capped)
	Wod, Dc bool
	LastPop bool
}

func (s State) key() string {
	return fmt.Sprintf("%d|%d|%s|%s|%d|%d|%v%v%v", s.PC, s.H, s.Blocks, s.Fstr, s.Dice, s.Details, s.Wod, s.Dc, s.LastPop)
}

// Proj is the projection observable through VerifStep.
type Proj struct{ PC, H, BlockDepth, FstrDepth, Dice, Details int }

func depth(s string) int {
	if s == "" {
		return 0
	}
	return strings.Count(s, ",") + 1
}

func push(stack string, h int) string {
	if stack == "" {
		return fmt.Sprint(h)
	}
	return stack + "," + fmt.Sprint(h)
}

func pop(stack string) (string, int) {
	i := strings.LastIndex(stack, ",")
	var v int
	fmt.Sscan(stack[i+1:], &v)
	if i < 0 {
		return "", v
	}
	return stack[:i], v
}

// Finding is an invariant violation.
type Finding struct {
	Kind string
	PC   int
	Op   string
	Msg  string
}

// Result of analysing one code array.
type Result struct {
	States      int
	Transitions int
	Findings    []Finding
	Reach       map[Proj]bool
	Truncated   bool
	CondJumps   int
	Ops         map[string]bool
}

type effect struct {
	pops, pushes int
	canErr       bool
}

var simple = map[string]effect{
	"push.int": {0, 1, false}, "push.flt": {0, 1, false}, "push.str": {0, 1, false}, "push.null": {0, 1, false}, "push.this": {0, 1, false},
	"push.func": {0, 1, false}, "push.computed": {0, 1, false}, "push.range": {2, 1, true},
	"and": {2, 1, false}, "item.get": {2, 1, true}, "item.set": {3, 0, true}, "attr.set": {2, 0, true}, "attr.get": {1, 1, true},
	"slice.get": {4, 1, true}, "slice.set": {5, 0, true}, "ld": {0, 1, true}, "ld.raw": {0, 1, true},
	"pop": {1, 0, false},
	"add": {2, 1, true}, "sub": {2, 1, true}, "mul": {2, 1, true}, "div": {2, 1, true}, "mod": {2, 1, true}, "pow": {2, 1, true}, "nullCoalescing": {2, 1, true},
	"comp.lt": {2, 1, true}, "comp.le": {2, 1, true}, "comp.eq": {2, 1, true}, "comp.ne": {2, 1, true}, "comp.ge": {2, 1, true}, "comp.gt": {2, 1, true},
	"&": {2, 1, true}, "|": {2, 1, true}, "neg": {1, 1, true}, "pos": {1, 1, true},
	"dice.custom": {0, 1, true},
	"st.set": {2, 0, false}, "st.mod": {2, 0, false}, "st.x0": {2, 0, false}, "st.x1": {3, 0, false},
	// opcodes the VM has no case for: no effect
	"nop": {0, 0, false}, "store.local": {0, 0, false}, "store.global": {0, 0, false}, "push.global": {0, 0, false}, "or": {0, 0, false}, "invoke.self": {0, 0, false},
}

// Analyse explores one code array. isMain: must end in halt and no path may run past the end.
func Analyse(code []ds.VerifOp, isMain bool) *Result { return AnalyseOpt(code, isMain, false) }

// AnalyseOpt: with setYields the three assignment instructions item.set / attr.set / slice.set are
// modelled AS IF they left the assigned value on the stack (used only to attribute an underflow to
// "an index/attribute/slice assignment was accepted where a value is needed").
func AnalyseOpt(code []ds.VerifOp, isMain bool, setYields bool) *Result {
	r := &Result{Reach: map[Proj]bool{}, Ops: map[string]bool{}}
	n := len(code)
	add := func(kind string, pc int, msg string) {
		for _, f := range r.Findings {
			if f.Kind == kind && f.PC == pc {
				return
			}
		}
		op := ""
		if pc >= 0 && pc < n {
			op = code[pc].Name
		}
		if len(r.Findings) < 8 {
			r.Findings = append(r.Findings, Finding{kind, pc, op, msg})
		}
	}
	if isMain && (n == 0 || code[n-1].Name != "halt") {
		add("no-final-halt", n-1, "main code does not end in halt")
	}
	depthAt := map[int][2]int{}
	depthBad := map[int]bool{}
	seen := map[string]bool{}
	var work []State
	enq := func(s State) {
		if s.H > HCap {
			s.H = HCap
		}
		if s.Details > DCap {
			s.Details = DCap
		}
		k := s.key()
		if seen[k] {
			return
		}
		// prune at the first block-depth inconsistency per pc
		d := [2]int{depth(s.Blocks), depth(s.Fstr)}
		if s.PC < n {
			if prev, ok := depthAt[s.PC]; ok {
				if prev != d {
					if !depthBad[s.PC] {
						depthBad[s.PC] = true
						add("block-depth-differs", s.PC, fmt.Sprintf("instruction reached with %d/%d open blocks/template blocks and with %d/%d", prev[0], prev[1], d[0], d[1]))
					}
					return
				}
			} else {
				depthAt[s.PC] = d
			}
		}
		seen[k] = true
		work = append(work, s)
	}
	enq(State{})
	for len(work) > 0 {
		s := work[len(work)-1]
		work = work[:len(work)-1]
		r.States++
		if r.States > maxStates {
			r.Truncated = true
			break
		}
		if s.PC >= n {
			if isMain {
				add("runs-past-end", s.PC, "a path runs past the end of the main code")
			} else {
				// a body ends by running off its last instruction: every block / template block opened on the way is closed by then,
				// and no jump leads beyond that point (a body cut short by a capacity keeps its opening instructions and its jumps)
				if s.PC > n {
					add("jump-beyond-end", n-1, fmt.Sprintf("a jump leads to instruction %d of a body of %d", s.PC, n))
				}
				if d0, d1 := depth(s.Blocks), depth(s.Fstr); d0 != 0 || d1 != 0 {
					add("body-ends-with-open-block", n-1, fmt.Sprintf("a path reaches the end of the body with %d/%d open blocks/template blocks", d0, d1))
				}
			}
			continue
		}
		r.Reach[Proj{s.PC, s.H, depth(s.Blocks), depth(s.Fstr), s.Dice, s.Details}] = true
		op := code[s.PC]
		r.Ops[op.Name] = true
		next := func(t State) {
			r.Transitions++
			enq(t)
		}
		need := func(k int) bool {
			if s.H >= HCap {
				return true
			}
			if s.H < k {
				add("stack-underflow", s.PC, fmt.Sprintf("%s needs %d operands, %d on the stack", op.Name, k, s.H))
				return false
			}
			return true
		}
		apply := func(pops, pushes int) State {
			t := s
			t.PC++
			if t.H < HCap {
				t.H = t.H - pops + pushes
			}
			if pops > 0 {
				t.LastPop = true
			}
			return t
		}
		needDetail := func() bool {
			if s.Details < 1 {
				add("no-detail-span", s.PC, op.Name+" uses the last detail span but none was marked on this path")
				return false
			}
			return true
		}
		needDice := func() bool {
			if s.Dice < 1 {
				add("no-dice-state", s.PC, op.Name+" uses the dice state but no dice.init is open on this path")
				return false
			}
			return true
		}
		jump := func(t State) (State, bool) {
			if !op.HasInt {
				add("jump-unpatched", s.PC, op.Name+" has no integer operand")
				return t, false
			}
			tgt := s.PC + 1 + int(op.Int)
			if tgt < 0 || tgt > n || (isMain && tgt == n) {
				add("jump-out-of-bounds", s.PC, fmt.Sprintf("%s %d targets %d, code length %d", op.Name, op.Int, tgt, n))
				return t, false
			}
			t.PC = tgt
			return t, true
		}
		if e, ok := simple[op.Name]; ok {
			if setYields && (op.Name == "item.set" || op.Name == "attr.set" || op.Name == "slice.set") {
				e.pushes = 1
			}
			if need(e.pops) {
				next(apply(e.pops, e.pushes))
			}
			continue
		}
		switch op.Name {
		case "push.arr", "push.dict", "popn", "invoke", "ld.fs":
			if !op.HasInt || op.Int < 0 {
				add("bad-operand", s.PC, op.Name+" without a count")
				continue
			}
			k := int(op.Int)
			switch op.Name {
			case "push.arr":
				if need(k) {
					next(apply(k, 1))
				}
			case "push.dict":
				if need(2 * k) {
					next(apply(2*k, 1))
				}
			case "popn":
				if need(k) {
					next(apply(k, 0))
				}
			case "invoke":
				if need(k + 1) {
					next(apply(k+1, 1))
				}
			case "ld.fs":
				if need(k) {
					t := apply(k, 1)
					t.LastPop = s.LastPop
					next(t)
				}
			}
		case "push.last":
			if !s.LastPop {
				add("push.last-without-pop", s.PC, "push.last but nothing was popped on this path")
				continue
			}
			next(apply(0, 1))
		case "push.def_expr":
			if needDetail() && needDice() {
				next(apply(0, 1))
			}
		case "ld.d":
			if needDetail() {
				next(apply(0, 1))
			}
		case "store":
			if s.H < 1 {
				add("stack-underflow", s.PC, "store peeks an empty stack")
				continue
			}
			next(apply(0, 0))
		case "ret", "halt":
			// terminal
		case "jmp":
			if t, ok := jump(s); ok {
				r.Transitions++
				enq(t)
			}
		case "je", "je.dup", "jne":
			r.CondJumps++
			if op.HasInt && op.Int == 0 {
				// every conditional jump the compiler emits skips at least one instruction once it is patched
				// (if / while / ternary arms end in a jmp, || skips its right operand): offset 0 = never patched
				add("jump-unpatched", s.PC, op.Name+" still has the placeholder offset 0")
			}
			if !need(1) {
				continue
			}
			fall := apply(1, 0)
			taken, ok := jump(apply(1, 0))
			if op.Name == "je.dup" && taken.H < HCap {
				taken.H++
			}
			next(fall)
			if ok {
				next(taken)
			}
		case "dice.init":
			t := apply(0, 0)
			t.Dice++
			next(t)
		case "dice.setTimes", "dice.setKeepLow", "dice.setKeepHigh", "dice.setDropLow", "dice.setDropHigh", "dice.setMin", "dice.setMax":
			if needDice() && need(1) {
				next(apply(1, 0))
			}
		case "mark.detail":
			t := apply(0, 0)
			t.Details++
			next(t)
		case "dice":
			if needDice() && needDetail() && need(1) {
				t := apply(1, 1)
				t.Dice--
				next(t)
			}
		case "dice.fate":
			if needDetail() {
				next(apply(0, 1))
			}
		case "coc.bonus", "coc.penalty":
			if needDetail() && need(1) {
				next(apply(1, 1))
			}
		case "wod.init":
			t := apply(0, 0)
			t.Wod = true
			next(t)
		case "wod.pool", "wod.points", "wod.threshold", "wod.thresholdQ":
			if !s.Wod {
				add("wod-state-unset", s.PC, op.Name+" before wod.init on this path")
				continue
			}
			if need(1) {
				next(apply(1, 0))
			}
		case "dice.wod":
			if !s.Wod {
				add("wod-state-unset", s.PC, "dice.wod before wod.init on this path")
				continue
			}
			if needDetail() && need(1) {
				next(apply(1, 1))
			}
		case "dc.setInit":
			t := apply(0, 0)
			t.Dc = true
			next(t)
		case "dc.setPool", "dc.setPoints":
			if !s.Dc {
				add("dc-state-unset", s.PC, op.Name+" before dc.setInit on this path")
				continue
			}
			if need(1) {
				next(apply(1, 0))
			}
		case "dice.dc":
			if !s.Dc {
				add("dc-state-unset", s.PC, "dice.dc before dc.setInit on this path")
				continue
			}
			if needDetail() && need(1) {
				next(apply(1, 1))
			}
		case "block.push":
			if depth(s.Blocks) >= 20 {
				continue // run-time error "too deep": path ends
			}
			t := apply(0, 0)
			t.Blocks = push(s.Blocks, s.H)
			next(t)
		case "block.pop":
			if depth(s.Blocks) < 1 {
				add("block-pop-empty", s.PC, "block.pop with no open block on this path")
				continue
			}
			t := apply(0, 0)
			var saved int
			t.Blocks, saved = pop(s.Blocks)
			t.H = saved + 1
			next(t)
		case "fstr.block.push":
			if depth(s.Fstr) >= 20 {
				continue
			}
			t := apply(0, 0)
			t.Fstr = push(s.Fstr, s.H)
			next(t)
		case "fstr.block.pop":
			if depth(s.Fstr) < 1 {
				add("block-pop-empty", s.PC, "fstr.block.pop with no open template block on this path")
				continue
			}
			t := apply(0, 0)
			var saved int
			t.Fstr, saved = pop(s.Fstr)
			if saved != s.H {
				if s.H < 1 {
					add("stack-underflow", s.PC, "fstr.block.pop pops an empty stack")
					continue
				}
				t.LastPop = true
			}
			t.H = saved + 1
			next(t)
		default:
			add("unknown-opcode", s.PC, "opcode "+op.Name+" is not in the model")
		}
	}
	return r
}

// Conforms reports whether a concrete VM state is a reachable abstract state.
func (r *Result) Conforms(p Proj) bool {
	if p.Details > DCap {
		p.Details = DCap
	}
	if p.H > HCap {
		p.H = HCap
	}
	if r.Reach[p] {
		return true
	}
	q := p
	q.H = HCap
	return r.Reach[q]
}

// Listing renders code for reports.
func Listing(code []ds.VerifOp) string {
	var sb strings.Builder
	for i, op := range code {
		fmt.Fprintf(&sb, "%d:%s", i, op.Name)
		if op.HasInt {
			fmt.Fprintf(&sb, " %d", op.Int)
		}
		if op.HasStr {
			fmt.Fprintf(&sb, " %s", op.Str)
		}
		sb.WriteString("; ")
		if sb.Len() > 1500 {
			sb.WriteString("…")
			break
		}
	}
	return sb.String()
}

// SortedOps lists opcode names.
func SortedOps(m map[string]bool) []string {
	var out []string
	for k := range m {
		out = append(out, k)
	}
	sort.Strings(out)
	return out
}
