package checks

import (
	"fmt"

	ds "github.com/sealdice/dicescript"
	"verifmc/drv"
	"verifmc/harn"
	"verifmc/sched"
)

type c19Conc struct {
	Srcs  []string
	Langs []int
	Bound int
}

var c19ConcPool = []string{"(1+2", "1 +* ", "'abc", "", "[1,2", "x = {", "技能 + )", "1+\n\n (2"}

func c19ConcEnumerate(tier string, emit func(string, any)) {
	type spec struct {
		src  string
		lang int
	}
	var specs []spec
	for _, s := range c19ConcPool {
		for l := 0; l < 3; l++ {
			specs = append(specs, spec{s, l})
		}
	}
	for _, a := range specs {
		for _, b := range specs {
			emit("concurrent/2 VMs", c19Case{Conc: &c19Conc{Srcs: []string{a.src, b.src}, Langs: []int{a.lang, b.lang}, Bound: 2}})
		}
	}
	n3 := 6
	if tier == "thorough" {
		n3 = len(specs)
	}
	for i := 0; i < n3; i++ {
		for j := 0; j < n3; j++ {
			for k := 0; k < n3; k++ {
				a, b, c := specs[i], specs[(j*5+1)%len(specs)], specs[(k*7+2)%len(specs)]
				emit("concurrent/3 VMs", c19Case{Conc: &c19Conc{Srcs: []string{a.src, b.src, c.src}, Langs: []int{a.lang, b.lang, c.lang}, Bound: 2}})
			}
		}
	}
}

func c19ConcRun(c c19Case) harn.Result {
	res := harn.Result{Stats: map[string]int64{}, Nontrivial: true, Outcome: "concurrent"}
	cc := c.Conc
	iso := make([]string, len(cc.Srcs))
	for i, s := range cc.Srcs {
		cfg := drv.AllOn()
		cfg.Lang = cc.Langs[i]
		vm := drv.NewVM(cfg)
		if err := vm.Parse(s); err != nil {
			iso[i] = err.Error()
		}
	}
	got := make([]string, len(cc.Srcs))
	held := make([]error, len(cc.Srcs)) // the error OBJECTS, rendered again after every VM has finished
	mk := func() []func() {
		var bodies []func()
		for i := range cc.Srcs {
			i := i
			got[i], held[i] = "", nil
			bodies = append(bodies, func() {
				cfg := drv.AllOn()
				cfg.Lang = cc.Langs[i]
				vm := drv.NewVM(cfg)
				if err := vm.Parse(cc.Srcs[i]); err != nil {
					got[i] = err.Error()
					held[i] = err
				}
			})
		}
		return bodies
	}
	install := func(e *sched.Exec) {
		ds.VerifSharedHook = func(name string, write bool) { e.Point("shared:" + name) }
	}
	uninstall := func() { ds.VerifSharedHook = nil }
	reported := false
	st := sched.Explore(cc.Bound, 200, mk, install, uninstall, func(e *sched.Exec) {
		if reported {
			return
		}
		if ps := e.Panics(); len(ps) > 0 {
			reported = true
			res.Violations = append(res.Violations, harn.Violation{Signature: "C19:conc:panic", What: fmt.Sprint(ps)})
			return
		}
		for i := range got {
			if held[i] != nil && held[i].Error() != iso[i] && got[i] == iso[i] {
				got[i] = held[i].Error() + "   [rendered again after the other VMs had finished]"
			}
			if got[i] != iso[i] {
				reported = true
				res.Violations = append(res.Violations, harn.Violation{
					Signature: "C19:conc:message-depends-on-other-vm",
					What: fmt.Sprintf("inputs %q languages %v schedule %v: VM %d's message differs from its isolated message\n--- isolated ---\n%s\n--- under this schedule ---\n%s",
						cc.Srcs, cc.Langs, e.Choices, i, iso[i], got[i]),
				})
				return
			}
		}
	})
	res.Stats["schedules"] += st.Schedules
	res.Stats["sched_points"] += st.Points
	res.Sample = fmt.Sprintf("%q langs %v: %d schedules", cc.Srcs, cc.Langs, st.Schedules)
	return res
}
