package checks

import (
	"encoding/json"
	"fmt"
	"strings"
	"time"

	ds "github.com/sealdice/dicescript"
	"verifmc/drv"
	"verifmc/harn"
)

// C18 — the st command reports every edit once, in order, verbatim.
// Model = the list of edits being printed; every spelling of every list of
// k <= 2 (3 over a reduced alphabet) edits is generated.

type stEdit struct {
	Type  string // set | set.x0 | set.x1 | mod
	Name  string
	Val   string // canonical expected value (drv.Canon form)
	Extra string `json:",omitempty"`
	Op    string `json:",omitempty"`
	Text  string `json:",omitempty"` // written value text (mod detail / computed expr)
	Src   string // spelling
}

type c18Case struct {
	Src    string
	Edits  []stEdit
	Reason string   `json:",omitempty"`
	Seps   []string `json:",omitempty"`
}

type stName struct{ spelled, name string }

var stNames = []stName{
	{"力量", "力量"}, {"敏捷", "敏捷"}, {"Str", "Str"}, {"_x", "_x"}, {"射击:弓箭", "射击:弓箭"},
	{"'x1'", "x1"}, {"'a b'", "a b"}, {"'力量2'", "力量2"}, {"' a b '", " a b "}, {"'hp '", "hp "},
}

type stVal struct{ text, canon string }

var stVals = []stVal{{"5", "5"}, {"60", "60"}, {"1.5", "f1.5"}, {"(1+2)", "3"}, {"2d1", "2"}, {"0", "0"}, {"(1+2)*3", "9"}, {"(2)d1", "2"}, {"0.0", "f0"}, {"(1-1)", "0"}}
var stValsSigned = []stVal{{"-3", "-3"}}

func stAssignSpellings(full bool) []stEdit {
	var out []stEdit
	for ni, n := range stNames {
		vals := stVals
		if !full && ni >= 8 {
			vals = stVals[:1] // quick: the names with blanks at their edges with one value (all spellings in k=1)
		} else if !full && (ni == 0 || ni == 5) {
			vals = stVals[:7] // quick: a zero value and one that continues after a parenthesised group, with one plain and one quoted name
		} else if !full {
			vals = stVals[:5] // quick: the values that continue after a parenthesised group with one plain and one quoted name only
		}
		for _, v := range vals {
			// direct: name immediately followed by the value
			out = append(out, stEdit{Type: "set", Name: n.name, Val: v.canon, Src: n.spelled + v.text})
			seps := []string{":", "=", " : ", "= "}
			if !full {
				seps = seps[:2]
			}
			for _, sep := range seps {
				out = append(out, stEdit{Type: "set", Name: n.name, Val: v.canon, Src: n.spelled + sep + v.text})
			}
			if n.name != "射击:弓箭" { // multiplier forms take a plain or quoted name
				out = append(out, stEdit{Type: "set.x0", Name: n.name, Val: v.canon, Src: n.spelled + "*:" + v.text})
				out = append(out, stEdit{Type: "set.x1", Name: n.name, Val: v.canon, Extra: "f1.5", Src: n.spelled + "*1.5:" + v.text})
				if full {
					out = append(out, stEdit{Type: "set.x0", Name: n.name, Val: v.canon, Src: n.spelled + " * = " + v.text})
					out = append(out, stEdit{Type: "set.x1", Name: n.name, Val: v.canon, Extra: "2", Src: n.spelled + "*2=" + v.text})
					out = append(out, stEdit{Type: "set.x1", Name: n.name, Val: v.canon, Extra: "2", Src: n.spelled + " *(1+1) : " + v.text})
				}
			}
		}
		for _, v := range stValsSigned {
			out = append(out, stEdit{Type: "set", Name: n.name, Val: v.canon, Src: n.spelled + ":" + v.text})
			out = append(out, stEdit{Type: "set", Name: n.name, Val: v.canon, Src: n.spelled + " = " + v.text})
		}
		for _, e := range []string{"1d1+10", "(2d1)", "3d1+20"} { // dice of one side: the value is known, and differs per expression
			out = append(out, stEdit{Type: "set", Name: n.name, Val: "&(" + e + ")", Text: e, Src: "&" + n.spelled + "=" + e})
			if full {
				// (a blank after the ':'/'=' of a computed edit is not an accepted spelling: the grammar's look-ahead has no 'sp' there)
				out = append(out, stEdit{Type: "set", Name: n.name, Val: "&(" + e + ")", Text: e, Src: "&" + n.spelled + ":" + e})
				out = append(out, stEdit{Type: "set", Name: n.name, Val: "&(" + e + ")", Text: e, Src: "&" + n.spelled + " =" + e})
			}
		}
	}
	return out
}

func stModSpellings(full bool) []stEdit {
	var out []stEdit
	type opf struct{ spelled, op string }
	ops := []opf{{"+", "+"}, {"+=", "+"}, {"-", "-"}, {"-=", "-="}}
	if full {
		ops = append(ops, opf{" + ", "+"}, opf{" += ", "+"}, opf{" -= ", "-="})
	}
	for ni, n := range stNames {
		for _, o := range ops {
			for vi, v := range stVals {
				if !full && (vi >= 5 && ni != 0 && ni != 5 || vi >= 7 || ni >= 8 && vi >= 1) {
					continue
				}
				txt := v.text
				if o.op == "-" {
					txt = "-" + v.text // the captured text of the compatibility form includes the sign
				}
				_ = txt
				out = append(out, stEdit{Type: "mod", Name: n.name, Val: v.canon, Op: o.op, Text: v.text, Src: n.spelled + o.spelled + v.text})
			}
		}
	}
	return out
}

var stSeps = []string{"", " ", ",", ", "}

func c18Enumerate(tier string, seed int64, emit func(string, any)) {
	thorough := tier == "thorough"
	one := func(stratum string, edits []stEdit, seps []string, reason string) {
		var sb strings.Builder
		sb.WriteString("^st")
		for i, e := range edits {
			sb.WriteString(e.Src)
			if i < len(seps) {
				sb.WriteString(seps[i])
			}
		}
		src := sb.String()
		if reason != "" {
			src += " " + reason
		}
		emit(stratum, c18Case{Src: src, Edits: edits, Reason: reason, Seps: seps})
	}
	for kind, sp := range [][]stEdit{stAssignSpellings(true), stModSpellings(true)} {
		name := []string{"assign", "modify"}[kind]
		for _, e := range sp {
			one(name+"/k=1", []stEdit{e}, nil, "")
			one(name+"/k=1", []stEdit{e}, []string{" "}, "")
			one(name+"/k=1+reason", []stEdit{e}, nil, "理由 text")
			one(name+"/k=1+reason", []stEdit{e}, nil, "!!")
		}
	}
	for kind, sp := range [][]stEdit{stAssignSpellings(thorough), stModSpellings(thorough)} {
		name := []string{"assign", "modify"}[kind]
		for _, a := range sp {
			for _, b := range sp {
				for _, s := range stSeps {
					one(name+"/k=2", []stEdit{a, b}, []string{s}, "")
				}
			}
		}
	}
	// k = 3 over a reduced alphabet
	red := func(sp []stEdit) []stEdit {
		var out []stEdit
		for i, e := range sp {
			if i%7 == 0 || (thorough && i%3 == 0) {
				out = append(out, e)
			}
		}
		return out
	}
	for kind, sp := range [][]stEdit{red(stAssignSpellings(false)), red(stModSpellings(false))} {
		name := []string{"assign", "modify"}[kind]
		for _, a := range sp {
			for _, b := range sp {
				for _, c := range sp {
					for si, s := range stSeps {
						one(name+"/k=3", []stEdit{a, b, c}, []string{s, stSeps[(si+1)%4]}, "")
					}
					one(name+"/k=3+reason", []stEdit{a, b, c}, []string{" ", ","}, "理由")
				}
			}
		}
	}
}

type stCall struct {
	Type, Name, Val, Extra, Op, Detail string
}

func c18Run(raw json.RawMessage) harn.Result {
	var c c18Case
	if err := json.Unmarshal(raw, &c); err != nil {
		panic(err)
	}
	res := harn.Result{Stats: map[string]int64{}, Nontrivial: true}
	// known grammar quirk: a parenthesised value is parsed with bitwise operators enabled, so a following
	// "&name=..." edit (separator '' or ' ') is swallowed as the right operand of '&'
	parenThenComputed := false
	for i := 0; i+1 < len(c.Edits); i++ {
		// the value of edit i starts with '(' (whatever follows the closing parenthesis); in the generated spellings the only
		// other '(' is the one of a multiplier, which follows '*'
		v := ""
		src := c.Edits[i].Src
		for k := 0; k < len(src); k++ {
			if src[k] == '(' && (k == 0 || src[k-1] != '*') {
				v = src[k:]
				break
			}
		}
		if strings.HasPrefix(v, "(") && strings.HasPrefix(c.Edits[i+1].Src, "&") && i < len(c.Seps) && !strings.Contains(c.Seps[i], ",") {
			parenThenComputed = true
		}
	}
	viol := func(sig, what string) {
		if parenThenComputed {
			sig = "C18:paren-value-then-&edit-parsed-as-bitwise-and"
		}
		if len(res.Violations) < 2 {
			res.Violations = append(res.Violations, harn.Violation{Signature: sig, What: fmt.Sprintf("%q: %s", c.Src, what)})
		}
	}
	vm := drv.NewVM(drv.Cfg{})
	var log []stCall
	var delivered []*ds.VMValue
	vm.Config.CallbackSt = func(_type string, name string, val *ds.VMValue, extra *ds.VMValue, op string, detail string) {
		delivered = append(delivered, val)
		e := stCall{Type: _type, Name: name, Val: drv.Canon(val), Op: op, Detail: detail}
		if extra != nil {
			e.Extra = drv.Canon(extra)
		}
		log = append(log, e)
	}
	var err error
	if site, p := harn.Guard(func() { err = vm.Run(c.Src) }); p {
		viol(site, "panic")
		return res
	}
	if err != nil {
		viol("C18:rejected", "accepted spelling rejected: "+err.Error())
		res.Outcome = "rejected"
		return res
	}
	res.Outcome = fmt.Sprintf("k=%d", len(c.Edits))
	if len(log) != len(c.Edits) {
		viol("C18:count", fmt.Sprintf("%d edits written, callback fired %d times: %+v (rest %q)", len(c.Edits), len(log), log, vm.RestInput))
		return res
	}
	for i, e := range c.Edits {
		g := log[i]
		if g.Type != e.Type {
			viol("C18:type", fmt.Sprintf("edit #%d %q: type %q, expected %q", i, e.Src, g.Type, e.Type))
		}
		if g.Name != e.Name {
			viol("C18:name", fmt.Sprintf("edit #%d %q: name %q, expected %q", i, e.Src, g.Name, e.Name))
		}
		if g.Val != e.Val {
			viol("C18:value", fmt.Sprintf("edit #%d %q: value %s, expected %s", i, e.Src, g.Val, e.Val))
		}
		// a delivered computed value must EVALUATE to what its text says (the host stores it and evaluates it later)
		if strings.HasPrefix(e.Val, "&(") && i < len(delivered) && delivered[i] != nil && delivered[i].TypeId == ds.VMTypeComputedValue {
			want := ""
			ref := drv.NewVM(drv.AllOn())
			if err := ref.Run(e.Text); err == nil {
				want = drv.Canon(ref.Ret)
			}
			got := ""
			host := drv.NewVM(drv.AllOn())
			if site, p := harn.Guard(func() {
				if r := delivered[i].ComputedExecute(host, &ds.BufferSpan{}); r != nil && host.Error == nil {
					got = drv.Canon(r)
				}
			}); p {
				viol(site, fmt.Sprintf("edit #%d %q: panic evaluating the delivered computed value", i, e.Src))
			} else if got != want {
				viol("C18:computed-value-does-not-evaluate-to-its-text", fmt.Sprintf("edit #%d %q: the delivered computed value evaluates to %s, its text %q to %s", i, e.Src, got, e.Text, want))
			}
		}
		if g.Extra != e.Extra { // every edit: an edit without a multiplier must be reported without one ("" = nil)
			viol("C18:extra", fmt.Sprintf("edit #%d %q: extra %q, expected %q", i, e.Src, g.Extra, e.Extra))
		}
		if e.Type == "mod" {
			if g.Op != e.Op {
				viol("C18:op", fmt.Sprintf("edit #%d %q: op %q, expected %q", i, e.Src, g.Op, e.Op))
			}
			want := e.Text
			if e.Op == "-" {
				want = "-" + e.Text
			}
			if strings.TrimSpace(g.Detail) != want {
				viol("C18:detail", fmt.Sprintf("edit #%d %q: detail %q, expected %q", i, e.Src, g.Detail, want))
			}
		}
	}
	wantRest := ""
	if c.Reason != "" {
		wantRest = c.Reason
	}
	if strings.TrimSpace(vm.RestInput) != wantRest {
		viol("C18:rest", fmt.Sprintf("rest %q, expected %q", vm.RestInput, wantRest))
	}
	return res
}

func init() {
	harn.Register(&harn.Check{
		ID:   "C18",
		Rule: "model = the list of edits being printed. Every list of k<=2 edits (k=3 over a reduced alphabet) in every spelling: names (letters, CJK, underscore, namespaced with ':', quoted with digits/space) x values (int, float, parenthesised expression, dice under one-sided d1, signed after ':'/'=', computed) x ':'/'='/direct x multiplier forms '*:' and '*x:' x list separators '', ' ', ',', ', ', with and without a trailing reason text. Oracle: the callback log equals the model list (count, order, type, written name, evaluated value sign-normalised for '-', extra, operator, written value text) and RestInput is exactly the reason. Every case is non-trivial (>=1 edit); distinct by source text.",
		Enumerate: c18Enumerate,
		Run:       c18Run,
		Budget:    map[string]time.Duration{"quick": 400 * time.Second, "thorough": 40 * time.Minute},
	})
}
