package checks

import (
	"encoding/json"
	"fmt"
	"strings"
	"time"

	ds "github.com/sealdice/dicescript"
	"verifmc/drv"
	"verifmc/harn"
)

// C10 — deserialising untrusted or outdated JSON never yields a booby-trapped value.

type c10Case struct {
	Doc string
	Map bool `json:",omitempty"` // decode as a variable map instead of a single value
	// After: this document was decoded (and mostly rejected) immediately before, in the same goroutine: decoding is a function of
	// the document alone, whatever the decoder saw before
	After string `json:",omitempty"`
}

// documents that fail half-way, and sparse documents that leave fields out
var c10Rejected = []string{
	`{"t":6,"v":{"list":[{"t":0,"v":1},{"t":2,"v":"s"},5]}}`, `{"t":6,"v":{"list":[{"t":0,"v":1},null]}}`, `{"t":6,"v":{"list":[{"t":6,"v":{"list":[{"t":0,"v":7},"x"]}}]}}`, `{"t":6,"v":{"list":[{"t":0,"v":1},{"t":99}]}}`,
	`{"t":6,"v":{"list":[{"t":0,"v":1},{"t":2,"v":"s"}`, `{"t":6,"v":{"list":"str"}}`, `{"t":7,"v":{"dict":{"a":{"t":0,"v":1},"b":5}}}`, `{"t":7,"v":{"dict":{"a":{"t":0,"v":1},"b":{"t":99}}}}`, `{"t":7,"v":{"dict":{"a":{"t":0,"v":1}`,
	`{"t":5,"v":{"expr":"1+1","attrs":{"a":{"t":0,"v":1},"b":5}}}`, `{"t":5,"v":{"expr":5,"attrs":{"a":{"t":0,"v":1}}}}`, `{"t":8,"v":{"expr":"a+b","name":"g","params":["a","b",5]}}`, `{"t":8,"v":{"expr":"a","name":"g","params":"s"}}`,
	`{"t":9,"v":{"name":"nosuch"}}`, `{"t":2,"v":5}`, `{"t":0,"v":"s"}`, `{"t":1,"v":"s"}`, `{"t":0,"v":1e999}`, `[`, `{"t":6,"v":{"list":[{"t":0,"v":1},{"t":0,"v":2},{"t":0,"v":3},{"t":0,"v":"bad"}]}}`,
}
var c10Sparse = []string{
	`{"t":6}`, `{"t":6,"v":{}}`, `{"t":6,"v":null}`, `{"t":6,"v":{"list":null}}`, `{"t":6,"v":{"list":[]}}`, `{"t":7}`, `{"t":7,"v":{}}`, `{"t":7,"v":null}`, `{"t":7,"v":{"dict":null}}`, `{"t":7,"v":{"dict":{}}}`,
	`{"t":5}`, `{"t":5,"v":{}}`, `{"t":5,"v":{"expr":"1"}}`, `{"t":8}`, `{"t":8,"v":{}}`, `{"t":8,"v":{"expr":"1"}}`, `{"t":8,"v":{"expr":"1","name":"g"}}`, `{"t":9}`, `{"t":9,"v":{}}`, `{"t":2}`, `{"t":0}`, `{"t":1}`, `{"t":4}`,
	`{"t":6,"v":{"list":[{"t":0,"v":9}]}}`, `{"t":7,"v":{"dict":{"z":{"t":0,"v":9}}}}`, `{"t":2,"v":"ok"}`,
}
// values of every kind in several sizes, for comparisons against the decoded value (both operand orders)
var c10Peers = []string{
	`{"t":8,"v":{"expr":"1","name":"g"}}`, `{"t":8,"v":{"expr":"1","name":"g","params":[]}}`, `{"t":8,"v":{"expr":"1","name":"g","params":["a"]}}`, `{"t":8,"v":{"expr":"1","name":"g","params":["a","b","c"]}}`, `{"t":8,"v":{"expr":"a","name":"g","params":["a"]}}`,
	`{"t":8,"v":{"expr":"a +","name":"f","params":null}}`, `{"t":8,"v":{"expr":"a +","name":"f","params":["a","b"]}}`, `{"t":8,"v":{"expr":"a+1","name":"g","params":["a"]}}`, `{"t":8,"v":{"expr":"a+1","name":"g","params":["a","b"]}}`, `{"t":8,"v":{"expr":"a+1","name":"g"}}`,
	`{"t":6,"v":{"list":[]}}`, `{"t":6,"v":{"list":[{"t":0,"v":1}]}}`, `{"t":6,"v":{"list":[{"t":0,"v":1},{"t":2,"v":"s"}]}}`, `{"t":6,"v":{"list":[{"t":0,"v":1},{"t":2,"v":"s"},{"t":4}]}}`, `{"t":7,"v":{"dict":{}}}`, `{"t":7,"v":{"dict":{"k":{"t":0,"v":1}}}}`, `{"t":7,"v":{"dict":{"k":{"t":0,"v":1},"j":{"t":4}}}}`,
	`{"t":5,"v":{"expr":"1+1"}}`, `{"t":5,"v":{"expr":"1+1","attrs":{"a":{"t":0,"v":1}}}}`, `{"t":5,"v":{"expr":"1+1","attrs":{"a":{"t":0,"v":1},"b":{"t":4}}}}`, `{"t":5,"v":{"expr":"1+x","attrs":{"a":{"t":0,"v":1}}}}`, `{"t":9,"v":{"name":"ceil"}}`, `{"t":9,"v":{"name":"floor"}}`, `{"t":0,"v":12}`, `{"t":1,"v":1.5}`, `{"t":2,"v":"a\"b"}`, `{"t":4}`,
}

var c10SubDocs = []string{
	`{"t":0,"v":1}`, `{"t":2,"v":"s"}`, `{"t":4}`, `{"t":1,"v":1.5}`, `{"t":6,"v":{"list":[]}}`, `{"t":6,"v":{"list":[null]}}`, `{"t":7,"v":{"dict":{}}}`,
	`{"t":9,"v":{"name":"nosuch"}}`, `{"t":9,"v":{"name":"ceil"}}`, `{"t":9,"v":{"name":"Array.sum"}}`, `{"t":10,"v":{"name":"o"}}`,
	`{"t":5,"v":{"expr":"1 +"}}`, `{"t":5,"v":{"expr":"2d1"}}`, `{"t":8,"v":{"expr":"a +","name":"f","params":null}}`, `{"t":8,"v":{"expr":"1","name":"f","params":[]}}`,
	`null`, `5`, `"s"`, `[]`, `{}`, `{"t":99}`, `{"t":20}`, `{"t":21}`, `{"t":6}`, `{"t":7}`, `{"t":5}`, `{"t":8}`, `{"t":9}`, `{"t":10}`, `{"t":0}`, `{"t":2}`,
}

func c10Enumerate(tier string, seed int64, emit func(string, any)) {
	thorough := tier == "thorough"
	one := func(stratum, doc string) {
		emit(stratum, c10Case{Doc: doc})
		emit(stratum+"/as map entry", c10Case{Doc: `{"v":` + doc + `}`, Map: true})
	}
	tags := []string{"0", "1", "2", "3", "4", "5", "6", "7", "8", "9", "10", "20", "21", "-1", "99", "1.5", `"0"`, "null", "1e3", "true", "[]", "{}"}
	scalars := []string{"", "null", "0", "-1", "1.5", "1e999", `"s"`, "true", "[]", "{}", `{"list":[]}`, `{"dict":{}}`, `{"expr":"1"}`, `{"name":"ceil"}`, "9223372036854775808", "-9223372036854775809", "1e30", `"\u0000"`}
	for _, t := range tags {
		for _, v := range scalars {
			if v == "" {
				one("tag x scalar", `{"t":`+t+`}`)
			} else {
				one("tag x scalar", `{"t":`+t+`,"v":`+v+`}`)
				one("tag x scalar", `{"v":`+v+`,"t":`+t+`}`)
			}
		}
	}
	one("tag x scalar", `{"v":1}`)
	one("tag x scalar", `{}`)
	one("tag x scalar", `[]`)
	one("tag x scalar", `null`)
	one("tag x scalar", `5`)
	one("tag x scalar", `"x"`)
	one("tag x scalar", ``)
	// computed
	exprs := []string{`"1+1"`, `""`, `"1 +"`, `"x"`, `"this.a"`, `"cv"`, `"v"`, `"v + 1"`, `"this.a + v"`, `"[v, 1]"`, `5`, `null`, `"2d1"`, `"func q(){1}"`, `"` + strings.Repeat("(", 30) + `"`}
	attrs := []string{"", "null", "{}", `"str"`, "[]", "5", `{"a":null}`, `{"a":null,"b":{"t":0,"v":1}}`, `{"a":5}`, `{"a":{"t":5,"v":{"expr":"this.a"}}}`}
	for _, d := range c10SubDocs {
		attrs = append(attrs, `{"a":`+d+`}`)
	}
	for _, e := range exprs {
		for _, a := range attrs {
			if a == "" {
				one("computed", `{"t":5,"v":{"expr":`+e+`}}`)
			} else {
				one("computed", `{"t":5,"v":{"expr":`+e+`,"attrs":`+a+`}}`)
			}
		}
	}
	one("computed", `{"t":5,"v":{}}`)
	one("computed", `{"t":5,"v":{"attrs":{}}}`)
	// arrays and dicts
	lists := []string{"null", "[]", `"str"`, "5", "{}", "[null]", "[1]", "[null,null]", `["a"]`, "[[]]"}
	for _, d := range c10SubDocs {
		lists = append(lists, "["+d+"]", `[{"t":0,"v":1},`+d+"]")
		if thorough {
			for _, d2 := range c10SubDocs {
				lists = append(lists, "["+d+","+d2+"]")
			}
		}
	}
	for _, l := range lists {
		one("array", `{"t":6,"v":{"list":`+l+`}}`)
		one("array", `{"t":6,"v":{"list":[{"t":6,"v":{"list":`+l+`}}]}}`)
		one("array", `{"t":7,"v":{"dict":{"k":{"t":6,"v":{"list":`+l+`}}}}}`)
	}
	dicts := []string{"null", "{}", "[]", `"s"`, "5", `{"k":5}`, `{"k":null}`, `{"":null}`, `{"__proto__":{"t":7,"v":{"dict":{"a":{"t":0,"v":1}}}}}`, `{"__proto__":{"t":0,"v":1}}`, `{"__proto__":null}`}
	for _, d := range c10SubDocs {
		dicts = append(dicts, `{"k":`+d+`}`, `{"k":{"t":0,"v":1},"j":`+d+`}`)
	}
	for _, d := range dicts {
		one("dict", `{"t":7,"v":{"dict":`+d+`}}`)
		one("dict", `{"t":7,"v":{"dict":{"k":{"t":7,"v":{"dict":`+d+`}}}}}`)
		one("dict", `{"t":6,"v":{"list":[{"t":7,"v":{"dict":`+d+`}}]}}`)
	}
	for _, d := range []string{
		`{"t":7,"v":{"dict":{"a":{"t":0,"v":1}},"dict":{"b":{"t":0,"v":2}}}}`, `{"t":7,"v":{"dict":{}},"v":{"dict":{"b":{"t":0,"v":2}}}}`, `{"t":7,"v":{"dict":{"a":{"t":0,"v":1},"a":{"t":0,"v":2}}}}`,
		`{"t":0,"v":1,"v":2}`, `{"t":0,"t":7,"v":{"dict":{}}}`, `{"t":6,"v":{"list":[],"list":[{"t":0,"v":1}]}}`, `{"t":5,"v":{"expr":"1","attrs":{"a":{"t":0,"v":1}},"attrs":{"b":{"t":0,"v":1}}}}`,
		`{"t":7,"v":{"dict":{"k":{"t":7,"v":{"dict":{"a":{"t":0,"v":1}},"dict":{"b":{"t":0,"v":2}}}}}}}`,
	} {
		one("duplicated keys", d)
	}
	one("dict", `{"t":7,"v":{}}`)
	one("array", `{"t":6,"v":{}}`)
	// functions
	fexprs := []string{`"1"`, `""`, `"a +"`, `"v()"`, `"v(1)"`, `"a"`, `"return a"`, `null`, `5`, `"while 1 {}"`, `"2d1"`}
	names := []string{`"g"`, `""`, `null`, `5`, `"v"`}
	params := []string{`null`, `[]`, `["a"]`, `["a","a"]`, `[1]`, `"s"`, `[null]`, `["a","b","c"]`}
	for _, e := range fexprs {
		for _, n := range names {
			for _, p := range params {
				one("function", `{"t":8,"v":{"expr":`+e+`,"name":`+n+`,"params":`+p+`}}`)
			}
		}
		one("function", `{"t":8,"v":{"expr":`+e+`}}`)
	}
	one("function", `{"t":8,"v":{}}`)
	// native functions / objects
	for _, n := range append(ds.VerifBuiltinNames(), "Array.sum", "Array.kh", "Array.push", "Dict.keys", "Computed.compute", "nosuch", "", "CEIL") {
		one("native", `{"t":9,"v":{"name":`+strconvQuote(n)+`}}`)
		one("native", `{"t":10,"v":{"name":`+strconvQuote(n)+`}}`)
	}
	for _, n := range []string{"null", "5", "[]", "{}"} {
		one("native", `{"t":9,"v":{"name":`+n+`}}`)
		one("native", `{"t":10,"v":{"name":`+n+`}}`)
	}
	one("native", `{"t":9,"v":{}}`)
	one("native", `{"t":10,"v":{}}`)
	// decoding is a function of the document alone: every sparse document right after every half-rejected one
	for _, a := range c10Rejected {
		for _, d := range c10Sparse {
			emit("document after a rejected document", c10Case{Doc: d, After: a})
		}
	}
	// truncations and byte edits of valid documents
	valid := []string{
		`{"t":0,"v":12}`, `{"t":1,"v":1.5}`, `{"t":2,"v":"a\"b"}`, `{"t":4}`, `{"t":5,"v":{"expr":"1+x","attrs":{"a":{"t":0,"v":1}}}}`,
		`{"t":6,"v":{"list":[{"t":0,"v":1},{"t":2,"v":"s"}]}}`, `{"t":7,"v":{"dict":{"k":{"t":6,"v":{"list":[]}}}}}`,
		`{"t":8,"v":{"expr":"a+1","name":"g","params":["a"]}}`, `{"t":9,"v":{"name":"ceil"}}`,
	}
	for _, v := range valid {
		for i := 0; i <= len(v); i++ {
			emit("truncations", c10Case{Doc: v[:i]})
		}
		for i := 0; i < len(v); i++ {
			for _, repl := range []string{"", "0", "\"", "n", "{", "]"} {
				emit("byte edits", c10Case{Doc: v[:i] + repl + v[i+1:]})
			}
		}
	}
}

func strconvQuote(s string) string {
	b, _ := json.Marshal(s)
	return string(b)
}

var c10Scripts = []string{
	"v", "`{v}`", "v.x", "v[0]", "v['k']", "v[0:1]", "v()", "v(1)", "v(1,2)", "v+1", "1+v", "-v", "v==v", "v==1", "v ? 1 : 2", "v || 1", "v ?? 1", "v.x = 1", "v[0] = 1", "v['k'] = 1",
	"v.len()", "v.sum()", "v.keys()", "v.values()", "v.items()", "v.kh()", "v.pop()", "v.push(1)", "v.compute()", "[v]kh", "(v)d6", "2d(v)", "toStr(v)", "repr(v)", "typeId(v)", "dir(v)", "toInt(v)", "toBool(v)", "x = v; x", "&v", "&v.a", "v.a", "v.k.j",
	"[v, v]", "{'a': v}", "v * 2", "v[0][0]", "v.a()", "v.k(1)", "load('v')", "loadRaw('v')", "y = v; y == v", "if v {1}", "while v { break }", "func q(z){z}; q(v)", "[v].sum()", "[1,2,3][v]", "'abc'[v]", "v kh",
}

func c10Run(raw json.RawMessage) harn.Result {
	var c c10Case
	if err := json.Unmarshal(raw, &c); err != nil {
		panic(err)
	}
	res := harn.Result{Stats: map[string]int64{}}
	ds.VerifRollHook, ds.VerifStepHook = nil, nil
	viol := func(site, what string) {
		if len(res.Violations) < 3 {
			res.Violations = append(res.Violations, harn.Violation{Signature: site, What: fmt.Sprintf("document %s: %s", c.Doc, what)})
		}
	}
	var v *ds.VMValue
	var derr error
	if c.Map {
		// a variable map is also reloaded into maps that have been used before (every internal state of the sequential closure's entry paths)
		for _, recipe := range [][]string{{"S:a"}, {"S:a", "L:a"}, {"S:a", "L:a", "D:a"}, {"S:a", "L:a", "D:a", "S:b"}, {"S:a", "S:v", "R"}, {"S:v"}, {"S:v", "L:v", "D:v"}} {
			used := &ds.ValueMap{}
			for _, op := range recipe {
				switch op[0] {
				case 'S':
					used.Store(op[2:], ds.NewIntVal(1))
				case 'L':
					used.Load(op[2:])
				case 'D':
					used.Delete(op[2:])
				case 'R':
					used.Range(func(string, *ds.VMValue) bool { return true })
				}
			}
			site, p := harn.Guard(func() {
				if err := used.UnmarshalJSON([]byte(c.Doc)); err == nil {
					n := 0
					used.Range(func(k string, x *ds.VMValue) bool { n++; _ = x.ToString(); return true })
					if n != used.Length() {
						panic(fmt.Sprintf("reloaded map: Range visits %d entries, Length() = %d", n, used.Length()))
					}
					_, _ = used.ToJSON()
				}
			})
			if p {
				viol(site, fmt.Sprintf("panic while reloading the document into a map that had been used (%v)", recipe))
				break
			}
		}
	}
	truth, truthErr := "", false
	if c.After != "" {
		// reference: the same document decoded right after one successful decode of every container kind (which leaves any
		// decoder-internal scratch state clean), then the rejected document, then the document under test
		for _, clean := range []string{`{"t":6,"v":{"list":[{"t":0,"v":1}]}}`, `{"t":7,"v":{"dict":{"k":{"t":0,"v":1}}}}`, `{"t":5,"v":{"expr":"1","attrs":{"a":{"t":0,"v":1}}}}`, `{"t":8,"v":{"expr":"a","name":"g","params":["a"]}}`} {
			_, _ = ds.VMValueFromJSON([]byte(clean))
		}
		if site, p := harn.Guard(func() {
			w, err := ds.VMValueFromJSON([]byte(c.Doc))
			truthErr = err != nil
			if err == nil && w != nil {
				truth = drv.Canon(w)
			}
		}); p {
			viol(site, "panic while decoding")
			return res
		}
		if site, p := harn.Guard(func() { _, _ = ds.VMValueFromJSON([]byte(c.After)) }); p {
			viol(site, "panic while decoding the preceding document "+c.After)
			return res
		}
	}
	site, p := harn.Guard(func() {
		if c.Map {
			m := &ds.ValueMap{}
			derr = m.UnmarshalJSON([]byte(c.Doc))
			if derr == nil {
				v, _ = m.Load("v")
			}
		} else {
			v, derr = ds.VMValueFromJSON([]byte(c.Doc))
		}
	})
	if p {
		viol(site, "panic while decoding")
		res.Outcome = "panic"
		return res
	}
	if c.After != "" {
		got := ""
		if derr == nil && v != nil {
			if site, p := harn.Guard(func() { got = drv.Canon(v) }); p {
				viol(site, fmt.Sprintf("panic rendering the value decoded right after %s", c.After))
				return res
			}
		}
		if (derr != nil) != truthErr || got != truth {
			viol("C10:decode-depends-on-earlier-document", fmt.Sprintf("decoded right after %s it gives (error=%v, %s); decoded on its own (error=%v, %s)", c.After, derr != nil, got, truthErr, truth))
		}
	}
	if derr != nil {
		res.Outcome = "decode-error"
		return res
	}
	if v == nil {
		res.Outcome = "decoded-nil"
		return res
	}
	res.Outcome = "decoded"
	res.Nontrivial = true
	step := func(name string, f func()) {
		if site, p := harn.Guard(f); p {
			viol(site, "panic in "+name+" on the decoded value")
		}
	}
	step("ToString", func() { _ = v.ToString() })
	step("ToRepr", func() { _ = v.ToRepr() })
	step("AsBool", func() { _ = v.AsBool() })
	step("GetTypeName", func() { _ = v.GetTypeName() })
	step("Clone", func() { _ = v.Clone().ToString() })
	step("ValueEqual(self)", func() { _ = ds.ValueEqual(v, v, true); _ = ds.ValueEqual(v, v.Clone(), true) })
	step("ValueEqual(copy)", func() {
		if w, err := ds.VMValueFromJSON([]byte(c.Doc)); err == nil && !c.Map {
			_ = ds.ValueEqual(v, w, true)
			_ = ds.ValueEqual(w, v, false)
		}
	})
	step("ValueEqual(others)", func() {
		for _, o := range []*ds.VMValue{ds.NewIntVal(1), ds.NewStrVal("s"), ds.NewNullVal(), ds.NewArrayVal(), ds.NewDictVal(nil).V(), ds.NewComputedVal("1")} {
			_ = ds.ValueEqual(v, o, true)
			_ = ds.ValueEqual(o, v, true)
		}
	})
	step("ValueEqual(peers)", func() {
		for _, d := range c10Peers {
			if o, err := ds.VMValueFromJSON([]byte(d)); err == nil && o != nil {
				_ = ds.ValueEqual(v, o, true)
				_ = ds.ValueEqual(o, v, true)
				_ = ds.ValueEqual(v, o, false)
				_ = ds.ValueEqual(ds.NewArrayVal(v, o), ds.NewArrayVal(o, v), true)
			}
		}
	})
	step("AsDictKey", func() { _, _ = v.AsDictKey() })
	step("ToJSON", func() {
		b, err := v.ToJSON()
		if err == nil && b != nil {
			if w, err2 := ds.VMValueFromJSON(b); err2 == nil && w != nil {
				_ = w.ToString()
			}
		}
	})
	step("Canon", func() { _ = drv.Canon(v) })
	cfg := drv.AllOn()
	cfg.OpLimit = 3000
	for _, s := range c10Scripts {
		vm := drv.NewVM(cfg)
		step("script "+s, func() {
			vm.Attrs.Store("v", v)
			o := drv.Eval(vm, s, false)
			if o.Panic != "" {
				viol(o.Panic, fmt.Sprintf("panic in %s while running script %q with the decoded value bound as v", o.PanicAt, s))
			}
		})
		res.Stats["script_runs"]++
	}
	step("map ToJSON", func() {
		m := &ds.ValueMap{}
		m.Store("v", v)
		if b, err := m.ToJSON(); err == nil {
			m2 := &ds.ValueMap{}
			_ = m2.UnmarshalJSON(b)
		}
	})
	return res
}

func init() {
	harn.Register(&harn.Check{
		ID:   "C10",
		Rule: "documents: the document grammar {t: T, v: V} with T over every defined tag, internal tags, unknown, negative, fractional, string, null, absent and V over absent/null/wrong-typed scalars/containers, and for each structured kind every combination of its fields in {absent, null, wrong type, empty, valid, nested sub-document from a 31-document set incl. unknown native names, bound-method names, null elements, broken expressions}; each also wrapped as a variable-map entry; documents with duplicated keys; variable-map documents are also reloaded into maps in 7 used internal states; plus every truncation and 6 single-byte edits at every position of 9 valid documents. Every successfully decoded value goes through the battery: ToString, ToRepr, AsBool, GetTypeName, Clone, ValueEqual (self, copy, 6 other kinds, both argument orders), AsDictKey, ToJSON + re-decode, map ToJSON, and 59 scripts with the value bound as a variable (indexing, calling, arithmetic, attribute access, methods, dice, templates, conversion builtins, control flow). Oracle: no Go panic, fatal error or hang. Non-trivial = document decodes to a value; distinct by document.",
		Enumerate: c10Enumerate,
		Run:       c10Run,
		Budget:    map[string]time.Duration{"quick": 400 * time.Second, "thorough": 40 * time.Minute},
	})
}
