package checks

import (
	"encoding/json"
	"fmt"
	"strings"
	"time"

	ds "github.com/sealdice/dicescript"
	"golang.org/x/exp/rand"
	"verifmc/absvm"
	"verifmc/drv"
	"verifmc/gen"
	"verifmc/harn"
)

// C08 — compiled code is well-formed on every path. Model = abstract stack
// machine (package absvm) exploring both outcomes of every conditional jump;
// bound to the code by checking that every concrete VM trace (VerifStep) is a
// path through the abstract reachable set.

type c08Case struct {
	Pre string `json:",omitempty"`
	Src string
	Cfg drv.Cfg
}

func c08Enumerate(tier string, seed int64, emit func(string, any)) {
	thorough := tier == "thorough"
	on := drv.AllOn()
	on.OpLimit = 20000
	off := drv.Cfg{OpLimit: 20000}
	gen.ControlFlow(thorough, func(s string) { emit("control-flow", c08Case{Src: s, Cfg: on}) })
	for _, set := range []string{"xd.j = 1", "xa[0] = 1", "xa[0:1] = [1]", "xd['j'] = 1", "&xc.q = 1"} {
		for _, t := range []string{"y = (S)", "y = S", "[S]", "[1, S]", "xf(S)", "(S) + 1", "1 + (S)", "-(S)", "if (S) {1}", "(S) ? 1 : 2", "1 ? (S) : 2", "(S) || 1", "0 || (S)", "`{S}`", "{'a': S}", "xa[(S)]", "return S", "while (S) { break }", "S; 1", "1; S", "2d((S))", "(S)d6", "func g(){ S }; g()", "func g(){ y = S }; g()", "&z = S; z", "^stA:(S)"} {
			emit("assignment-as-value", c08Case{Pre: gen.Prelude, Src: strings.ReplaceAll(t, "S", set), Cfg: on})
		}
	}
	gen.Matrix(func(s string) { emit("matrix", c08Case{Pre: gen.Prelude, Src: s, Cfg: on}) })
	gen.Ladders(false, func(s string) {
		if len(s) < 3000 {
			emit("ladders", c08Case{Src: s, Cfg: on})
		}
	})
	for _, p := range c03Programs {
		for _, sep := range c03Seps {
			for _, t := range c03Tails {
				emit("program+tail", c08Case{Pre: c03Prelude, Src: p + sep + t, Cfg: on})
			}
		}
		for _, t := range c03CompoundTails {
			emit("program+tail", c08Case{Pre: c03Prelude, Src: p + " " + t, Cfg: on})
		}
	}
	// bodies and programs around the code-size capacity (8192 instructions per segment): an accepted program is well-formed
	// whatever its size; one that is cut must be rejected as a whole
	for _, n := range []int{2000, 4090, 4096, 4100, 5000} {
		long := "1" + strings.Repeat("+1", n)
		stm := "x = 0; " + strings.Repeat("if x < 1 { x = x + 1 }; ", n/6)
		for _, src := range []string{
			long, "func g(){ " + long + " }; g()", "&a = " + long + "; a", "func g(){ if 1 { " + long + " } }; g()", "&a = 1 ? (" + long + ") : 2; a", "func g(){ " + stm + "x }; g()", stm + "x",
			"func g(){ i = 0; while i < 2 { i = i + 1; " + long + " }; i }; g()", "`{% " + stm + " %}`", "func g(){ `{" + long + "}` }; g()", "func g(){ func h(){ " + long + " }; h() }; g()",
		} {
			emit("code-size capacity", c08Case{Src: src, Cfg: on})
		}
	}
	gen.StringsUpTo(gen.TokensCore, 3, func(s string) { emit("tokens<=3", c08Case{Src: s, Cfg: on}) })
	gen.StringsUpTo(gen.TokensFull, 2, func(s string) { emit("tokens<=2/full", c08Case{Src: s, Cfg: off}) })
	if thorough {
		gen.Strings(gen.TokensTiny, 4, func(s string) { emit("tokens=4", c08Case{Src: s, Cfg: on}) })
		gen.Strings(gen.TokensFull, 3, func(s string) { emit("tokens=3/full", c08Case{Src: s, Cfg: on}) })
	}
}

var c08Cache = map[string]*absvm.Result{}

func c08Analyse(code []ds.VerifOp, isMain bool) *absvm.Result {
	key := fmt.Sprint(isMain) + absvm.Listing(code)
	if len(key) < 1400 {
		if r, ok := c08Cache[key]; ok {
			return r
		}
	}
	r := absvm.Analyse(code, isMain)
	if len(key) < 1400 && len(c08Cache) < 20000 {
		c08Cache[key] = r
	}
	return r
}

func c08Run(raw json.RawMessage) harn.Result {
	var c c08Case
	if err := json.Unmarshal(raw, &c); err != nil {
		panic(err)
	}
	res := harn.Result{Stats: map[string]int64{}}
	ds.VerifStepHook, ds.VerifRollHook = nil, nil
	var vm *ds.Context
	if c.Pre != "" {
		vm = drv.NewVM(drv.AllOn())
		if err := vm.Run(c.Pre); err != nil {
			panic(err)
		}
		c.Cfg.Apply(vm)
	} else {
		vm = drv.NewVM(c.Cfg)
	}
	viol := func(sig, what string) {
		if len(res.Violations) < 2 {
			res.Violations = append(res.Violations, harn.Violation{Signature: sig, What: fmt.Sprintf("input %q: %s", c.Src, what)})
		}
	}
	var perr error
	if site, p := harn.Guard(func() { perr = vm.Parse(c.Src) }); p {
		viol(site, "panic in Parse")
		return res
	}
	if perr != nil {
		res.Outcome = "rejected"
		return res
	}
	res.Outcome = "accepted"
	// analyse the main code and every nested body
	var walk func(code []ds.VerifOp, isMain bool, where string, depth int) *absvm.Result
	walk = func(code []ds.VerifOp, isMain bool, where string, depth int) *absvm.Result {
		r := c08Analyse(code, isMain)
		res.Stats["states"] += int64(r.States)
		res.Stats["transitions"] += int64(r.Transitions)
		res.Stats["code_arrays"]++
		if r.CondJumps > 0 {
			res.Nontrivial = true
		}
		if r.Truncated {
			res.Stats["analyses_truncated"]++
		}
		var alt *absvm.Result
		for _, f := range r.Findings {
			sig := "C08:" + f.Kind + ":" + f.Op
			if f.Kind == "stack-underflow" {
				// attribute the underflow: does it vanish if index/attribute/slice assignments yielded their value?
				if alt == nil {
					alt = absvm.AnalyseOpt(code, isMain, true)
				}
				still := false
				for _, g := range alt.Findings {
					if g.Kind == "stack-underflow" {
						still = true
					}
				}
				if !still {
					sig = "C08:stack-underflow:index/attribute/slice-assignment-used-as-a-value"
				}
			}
			viol(sig, fmt.Sprintf("%s code, instruction %d (%s): %s\n  listing: %s", where, f.PC, f.Op, f.Msg, absvm.Listing(code)))
		}
		if depth < 6 {
			for _, op := range code {
				if op.Body != nil {
					if body, ok := ds.VerifValueCode(op.Body); ok {
						walk(body, false, "body of "+op.Name, depth+1)
					}
				}
			}
		}
		return r
	}
	walk(vm.VerifCode(), true, "main", 0)
	if len(res.Violations) > 0 {
		return res
	}
	// bind the model to the code: the concrete trace must stay inside the reachable abstract set
	perCtx := map[*ds.Context]*absvm.Result{}
	var modelErr string
	steps := 0
	ds.VerifRollHook = func(s *rand.PCGSource, sides ds.IntType) (ds.IntType, bool) { return 1 + ds.IntType(steps)%sides, true }
	ds.VerifStepHook = func(ctx *ds.Context, pc, top, bd, fd, dd, nd int) {
		steps++
		if modelErr != "" || steps > 4000 {
			return
		}
		r, ok := perCtx[ctx]
		if !ok {
			r = c08Analyse(ctx.VerifCode(), ctx.Depth() == 0)
			perCtx[ctx] = r
			if ctx.Depth() > 0 {
				for _, f := range r.Findings {
					viol("C08:"+f.Kind+":"+f.Op, fmt.Sprintf("code compiled at run time (sub-VM depth %d), instruction %d (%s): %s\n  listing: %s", ctx.Depth(), f.PC, f.Op, f.Msg, absvm.Listing(ctx.VerifCode())))
				}
			}
		}
		if len(r.Findings) > 0 || r.Truncated {
			return
		}
		p := absvm.Proj{PC: pc, H: top, BlockDepth: bd, FstrDepth: fd, Dice: dd + 1, Details: nd}
		if !r.Conforms(p) {
			modelErr = fmt.Sprintf("concrete state %+v (depth %d) is not a reachable abstract state; listing: %s", p, ctx.Depth(), absvm.Listing(ctx.VerifCode()))
		}
	}
	var rerr error
	site, p := harn.Guard(func() { rerr = vm.RunAfterParsed() })
	ds.VerifStepHook, ds.VerifRollHook = nil, nil
	_ = rerr
	if p {
		viol(site, "panic at run time although the abstract machine found the code well-formed")
		return res
	}
	res.Stats["concrete_steps"] += int64(steps)
	res.Stats["traces"]++
	if modelErr != "" {
		viol("MACHINERY:model-divergence", modelErr)
	}
	_ = strings.Join
	return res
}

func init() {
	harn.Register(&harn.Check{
		ID:   "C08",
		Rule: "for every accepted input (control-flow program family to nesting depth 2, typed-operand matrix, ladders, valid-program+broken-tail grid, token strings) the compiled main code and every nested function/computed body are explored by an abstract stack machine over states (pc, height, saved block heights, saved template-block heights, open dice states, detail spans, wod/dc initialised, last-pop set) taking BOTH outcomes of every conditional jump; invariants in every reachable state: operands available, jump operand present and in bounds, block/template depth single-valued per instruction and never popped empty, dice/annotation/wod/dc state set up on that path, push.last only after a pop, main code ends in halt. Every program is then executed and each concrete (pc, top, block depth, template depth, dice depth, detail count) reported by VerifStep, at every sub-VM depth, must be a reachable abstract state (model-to-code binding). states/transitions are abstract ones summed over code arrays; non-trivial = code with a conditional jump.",
		Assume: []string{"operand-stack heights >= 96 and detail counts >= 3 are merged", "the opcode transfer table in absvm restates rollvm.go's dispatch loop; a mismatch surfaces as MACHINERY:model-divergence, not as a property violation"},
		Enumerate: c08Enumerate,
		Run:       c08Run,
		Budget:    map[string]time.Duration{"quick": 400 * time.Second, "thorough": 40 * time.Minute},
		Extra: func(stats map[string]int64, cov map[string]any) {
			cov["states"] = stats["states"]
			cov["transitions"] = stats["transitions"]
			cov["traces_validated_against_impl"] = stats["traces"]
		},
	})
}
