//go:build vshim

package checks

import (
	"github.com/sealdice/dicescript/verifshim/vsync"
	"verifmc/sched"
)

// with the sync-shim overlay every mutex / atomic operation of ValueMap is a scheduling point too, so the
// shared built-in method tables (lazily promoted sync.Map clones) are interleaved at that granularity
func init() {
	c11ShimInstall = func(e *sched.Exec) { vsync.Active = schedAdapter{e} }
	c11ShimUninstall = func() { vsync.Active = nil }
}
