//go:build vshim

package checks

import (
	"fmt"
	"sort"
	"strings"

	ds "github.com/sealdice/dicescript"
	"github.com/sealdice/dicescript/verifshim/vsync"
	"verifmc/harn"
	"verifmc/sched"
)

// schedAdapter binds the shim's Scheduler interface to one execution.
type schedAdapter struct{ e *sched.Exec }

func (a schedAdapter) Point(kind string)      { a.e.Point(kind) }
func (a schedAdapter) BlockOn(m *vsync.Mutex)  { a.e.BlockOnObj(m) }
func (a schedAdapter) Released(m *vsync.Mutex) { a.e.ReleasedObj(m) }

type histEv struct {
	thr        int
	op         mapOp
	call, ret  int
	got        string
	rangeItems []string
}

// initial-state recipes (sequential prefix applied before the threads start)
var c12Inits = map[string][]mapOp{
	"empty":          nil,
	"a-dirty":        {{Op: "Store", K: "a", V: 1}},
	"a-promoted":     {{Op: "Store", K: "a", V: 1}, {Op: "Load", K: "a"}},
	"a-nil":          {{Op: "Store", K: "a", V: 1}, {Op: "Load", K: "a"}, {Op: "Delete", K: "a"}},
	"a-expunged-b":   {{Op: "Store", K: "a", V: 1}, {Op: "Load", K: "a"}, {Op: "Delete", K: "a"}, {Op: "Store", K: "b", V: 1}},
	"ab-promoted-c":  {{Op: "Store", K: "a", V: 1}, {Op: "Store", K: "b", V: 1}, {Op: "RangeAll"}, {Op: "Store", K: "c", V: 1}},
	"a-read-b-dirty": {{Op: "Store", K: "a", V: 1}, {Op: "Load", K: "a"}, {Op: "Store", K: "b", V: 1}},
}

func init() {
	c12ConcEnumerate = func(tier string, emit func(string, any)) {
		thorough := tier == "thorough"
		var names []string
		for k := range c12Inits {
			names = append(names, k)
		}
		sort.Strings(names)
		base := []mapOp{
			{Op: "Store", K: "a", V: 2}, {Op: "Load", K: "a"}, {Op: "LoadOrStore", K: "a", V: 3}, {Op: "LoadAndDelete", K: "a"}, {Op: "Delete", K: "a"},
			{Op: "Store", K: "b", V: 2}, {Op: "Load", K: "b"}, {Op: "Clear"}, {Op: "RangeAll"}, {Op: "Length"},
		}
		for _, in := range names {
			// 2 threads x 1 op: all ordered pairs, bound 3
			for i, o1 := range base {
				for j, o2 := range base {
					if j < i {
						continue
					}
					emit("conc/2x1", c12Case{Kind: "conc", Init: in, Thr: [][]mapOp{{o1}, {o2}}, Bound: 3})
				}
			}
			// 2 threads x 2 ops on colliding keys, bound 2 (quick: reduced alphabet)
			alpha2 := []mapOp{{Op: "Store", K: "a", V: 2}, {Op: "Load", K: "a"}, {Op: "Delete", K: "a"}, {Op: "LoadOrStore", K: "a", V: 3}, {Op: "Load", K: "b"}, {Op: "Store", K: "b", V: 2}}
			if thorough {
				alpha2 = append(alpha2, mapOp{Op: "LoadAndDelete", K: "a"}, mapOp{Op: "Clear"}, mapOp{Op: "RangeAll"}, mapOp{Op: "Length"})
			}
			for _, a1 := range alpha2 {
				for _, a2 := range alpha2 {
					for _, b1 := range alpha2 {
						for bi, b2 := range alpha2 {
							if !thorough && (bi%2 == 1) {
								continue
							}
							bound := 2
							emit("conc/2x2", c12Case{Kind: "conc", Init: in, Thr: [][]mapOp{{a1, a2}, {b1, b2}}, Bound: bound})
						}
					}
				}
			}
			// 3 threads x 1 op
			alpha3 := []mapOp{{Op: "Store", K: "a", V: 2}, {Op: "Load", K: "a"}, {Op: "Delete", K: "a"}, {Op: "LoadOrStore", K: "b", V: 3}, {Op: "Load", K: "b"}, {Op: "Clear"}}
			for i, o1 := range alpha3 {
				for j, o2 := range alpha3 {
					for k, o3 := range alpha3 {
						if j < i || k < j {
							continue
						}
						emit("conc/3x1", c12Case{Kind: "conc", Init: in, Thr: [][]mapOp{{o1}, {o2}, {o3}}, Bound: 2})
					}
				}
			}
		}
	}

	c12Conc = func(c c12Case, res *harn.Result) {
		var m *ds.ValueMap
		var initModel map[string]int
		var hist []*histEv
		clock := 0
		mk := func() []func() {
			m = &ds.ValueMap{}
			initModel = map[string]int{}
			for _, o := range c12Inits[c.Init] {
				applyOp(m, initModel, o)
			}
			hist = nil
			clock = 0
			var bodies []func()
			for ti, ops := range c.Thr {
				ti, ops := ti, ops
				bodies = append(bodies, func() {
					for _, o := range ops {
						ev := &histEv{thr: ti, op: o}
						clock++
						ev.call = clock
						hist = append(hist, ev)
						scratch := map[string]int{}
						if o.Op == "RangeAll" {
							m.Range(func(k string, v *ds.VMValue) bool {
								ev.rangeItems = append(ev.rangeItems, k+"="+v.ToString())
								return true
							})
						} else {
							ev.got, _ = applyOp(m, scratch, o)
						}
						clock++
						ev.ret = clock
					}
				})
			}
			return bodies
		}
		install := func(e *sched.Exec) { vsync.Active = schedAdapter{e} }
		uninstall := func() { vsync.Active = nil }
		outcomes := map[string]bool{}
		reported := false
		check := func(e *sched.Exec) {
			if reported {
				return
			}
			fail := func(sig, what string) {
				reported = true
				res.Violations = append(res.Violations, harn.Violation{Signature: sig,
					What: fmt.Sprintf("init=%s threads=%s schedule=%v: %s", c.Init, thrStr(c.Thr), e.Choices, what)})
			}
			if ps := e.Panics(); len(ps) > 0 {
				fail("C12:conc:panic", strings.Join(ps, "; "))
				return
			}
			if e.Dead {
				fail("C12:conc:deadlock", "deadlock")
				return
			}
			if e.Diverge {
				fail("MACHINERY:replay-diverged", "schedule replay diverged")
				return
			}
			// quiescent contents
			final := map[string]string{}
			m.Range(func(k string, v *ds.VMValue) bool { final[k] = v.ToString(); return true })
			for _, k := range []string{"a", "b", "c"} {
				v, ok := m.Load(k)
				fv, fok := final[k]
				if ok != fok || (ok && v.ToString() != fv) {
					fail("C12:conc:range-load-disagree", fmt.Sprintf("after quiescence Range and Load disagree on %s", k))
					return
				}
			}
			if m.Length() != len(final) {
				fail("C12:conc:length-after-quiescence", fmt.Sprintf("Length()=%d but %d live keys", m.Length(), len(final)))
				return
			}
			ok, why := linearizable(hist, initModel, final)
			if !ok {
				fail("C12:conc:not-linearizable", why+" history: "+histStr(hist))
				return
			}
			var sig []string
			for _, h := range hist {
				sig = append(sig, h.got)
			}
			outcomes[strings.Join(sig, "|")+fmt.Sprint(final)] = true
		}
		st := sched.Explore(c.Bound, 400, mk, install, uninstall, check)
		res.Stats["schedules"] += st.Schedules
		res.Stats["sched_points"] += st.Points
		res.Stats["schedules_cut"] += st.Cut
		if len(outcomes) > 1 {
			res.Outcome = "conc-varied"
			res.Stats["scenarios_with_several_outcomes"]++
		} else {
			res.Outcome = "conc-single"
		}
		res.Sample = fmt.Sprintf("init=%s threads=%s bound=%d: %d schedules, %d distinct outcomes", c.Init, thrStr(c.Thr), c.Bound, st.Schedules, len(outcomes))
	}
}

func thrStr(t [][]mapOp) string {
	var p []string
	for _, ops := range t {
		var q []string
		for _, o := range ops {
			q = append(q, o.String())
		}
		p = append(p, "["+strings.Join(q, ";")+"]")
	}
	return strings.Join(p, " || ")
}

func histStr(h []*histEv) string {
	var p []string
	for _, e := range h {
		p = append(p, fmt.Sprintf("T%d %s@[%d,%d]=%q%v", e.thr, e.op, e.call, e.ret, e.got, e.rangeItems))
	}
	return strings.Join(p, " ")
}

// linearizable: brute force over all total orders consistent with real time.
// Range / Length overlapping other operations are held to the weak contract.
func linearizable(hist []*histEv, init map[string]int, final map[string]string) (bool, string) {
	n := len(hist)
	used := make([]bool, n)
	model := map[string]int{}
	for k, v := range init {
		model[k] = v
	}
	// values ever possible per key (for Range's weak contract)
	possible := map[string]map[string]bool{}
	addPoss := func(k string, v int) {
		if possible[k] == nil {
			possible[k] = map[string]bool{}
		}
		possible[k][fmt.Sprint(v)] = true
	}
	for k, v := range init {
		addPoss(k, v)
	}
	for _, h := range hist {
		if h.op.Op == "Store" || h.op.Op == "LoadOrStore" {
			addPoss(h.op.K, h.op.V)
		}
	}
	overlaps := func(i int) bool {
		for j := range hist {
			if j != i && hist[j].call < hist[i].ret && hist[i].call < hist[j].ret {
				return true
			}
		}
		return false
	}
	for i, h := range hist {
		if h.op.Op == "RangeAll" {
			seen := map[string]bool{}
			for _, it := range h.rangeItems {
				kv := strings.SplitN(it, "=", 2)
				if seen[kv[0]] {
					return false, "Range reported key " + kv[0] + " twice"
				}
				seen[kv[0]] = true
				if !possible[kv[0]][kv[1]] {
					return false, "Range reported a value never stored: " + it
				}
			}
		}
		if h.op.Op == "Length" && overlaps(i) {
			var l int
			fmt.Sscan(h.got, &l)
			if l < 0 || l > len(possible) {
				return false, "Length out of range"
			}
		}
	}
	var rec func(done int) bool
	rec = func(done int) bool {
		if done == n {
			// final contents must match
			if len(final) != len(model) {
				return false
			}
			for k, v := range model {
				if final[k] != fmt.Sprint(v) {
					return false
				}
			}
			return true
		}
		for i := 0; i < n; i++ {
			if used[i] {
				continue
			}
			// real-time order: every op that returned before hist[i] was called must be done already
			okRT := true
			for j := 0; j < n; j++ {
				if !used[j] && j != i && hist[j].ret < hist[i].call {
					okRT = false
					break
				}
			}
			if !okRT {
				continue
			}
			h := hist[i]
			// apply on a copy
			saved := map[string]int{}
			for k, v := range model {
				saved[k] = v
			}
			match := true
			weak := (h.op.Op == "RangeAll" || h.op.Op == "Length") && overlaps(i)
			if h.op.Op == "RangeAll" {
				if !weak {
					var w []string
					for k, v := range model {
						w = append(w, fmt.Sprintf("%s=%d", k, v))
					}
					sort.Strings(w)
					g := append([]string{}, h.rangeItems...)
					sort.Strings(g)
					match = strings.Join(w, ",") == strings.Join(g, ",")
				}
			} else {
				_, want := modelApply(model, h.op)
				if !weak && want != h.got {
					match = false
				}
			}
			if match {
				used[i] = true
				if rec(done + 1) {
					return true
				}
				used[i] = false
			}
			model = saved
		}
		return false
	}
	if rec(0) {
		return true, ""
	}
	return false, "no sequential order of the completed operations explains the results and the final contents " + fmt.Sprint(final)
}

// modelApply applies op to the plain-map model and returns the expected result.
func modelApply(model map[string]int, o mapOp) (string, string) {
	mv := func(k string) string {
		if v, ok := model[k]; ok {
			return fmt.Sprint(v)
		}
		return "-"
	}
	switch o.Op {
	case "Store":
		model[o.K] = o.V
		return "", ""
	case "Load":
		return "", mv(o.K)
	case "LoadOrStore":
		if v, ok := model[o.K]; ok {
			return "", fmt.Sprintf("%d/true", v)
		}
		model[o.K] = o.V
		return "", fmt.Sprintf("%d/false", o.V)
	case "LoadAndDelete":
		w := mv(o.K)
		delete(model, o.K)
		return "", w
	case "Delete":
		delete(model, o.K)
		return "", ""
	case "Clear":
		for k := range model {
			delete(model, k)
		}
		return "", ""
	case "Length":
		return "", fmt.Sprint(len(model))
	}
	panic("modelApply: " + o.Op)
}
