package checks

import (
	"encoding/json"
	"fmt"
	"sort"
	"strings"
	"time"

	ds "github.com/sealdice/dicescript"
	"verifmc/harn"
)

// C12 — ValueMap is a correct map. Sequential part: explicit-state BFS over
// the reachable canonical internal states (VerifDump) to closure, every
// operation checked against a plain map in every state. Concurrent part (file
// c12_conc.go, needs the sync-shim overlay build): preemption-bounded schedule
// enumeration + linearizability check of every complete history.

type c12Case struct {
	Kind  string // seq | conc
	Keys  int    `json:",omitempty"`
	Vals  int    `json:",omitempty"`
	Init  string `json:",omitempty"` // conc: initial-state recipe
	Thr   [][]mapOp `json:",omitempty"`
	Bound int    `json:",omitempty"`
}

type mapOp struct {
	Op string // Store Load LoadOrStore LoadAndDelete Delete Clear RangeAll RangeStop Length JSONRoundTrip AsBool Len EqFresh EqSuper EqSub
	K  string `json:",omitempty"`
	V  int    `json:",omitempty"`
}

func (o mapOp) String() string {
	switch o.Op {
	case "Store", "LoadOrStore":
		return fmt.Sprintf("%s(%s,%d)", o.Op, o.K, o.V)
	case "Load", "LoadAndDelete", "Delete":
		return fmt.Sprintf("%s(%s)", o.Op, o.K)
	}
	return o.Op + "()"
}

var c12Vals = map[int]*ds.VMValue{}

func c12Val(v int) *ds.VMValue {
	if x, ok := c12Vals[v]; ok {
		return x
	}
	x := ds.NewIntVal(ds.IntType(v))
	c12Vals[v] = x
	return x
}

// applyOp runs op on the real map and on the model; returns a rendering of the
// real result and of the expected result.
func applyOp(m *ds.ValueMap, model map[string]int, o mapOp) (got, want string) {
	rv := func(v *ds.VMValue, ok bool) string {
		if !ok {
			if v != nil {
				return "present-value-with-ok=false"
			}
			return "-"
		}
		if v == nil {
			return "nil!"
		}
		return v.ToString()
	}
	mv := func(k string) string {
		if v, ok := model[k]; ok {
			return fmt.Sprint(v)
		}
		return "-"
	}
	switch o.Op {
	case "Store":
		m.Store(o.K, c12Val(o.V))
		model[o.K] = o.V
		return "", ""
	case "Load":
		return rv(m.Load(o.K)), mv(o.K)
	case "LoadOrStore":
		a, loaded := m.LoadOrStore(o.K, c12Val(o.V))
		got = fmt.Sprintf("%s/%v", rv(a, true), loaded)
		if v, ok := model[o.K]; ok {
			want = fmt.Sprintf("%d/true", v)
		} else {
			model[o.K] = o.V
			want = fmt.Sprintf("%d/false", o.V)
		}
		return
	case "LoadAndDelete":
		got = rv(m.LoadAndDelete(o.K))
		want = mv(o.K)
		delete(model, o.K)
		return
	case "Delete":
		m.Delete(o.K)
		delete(model, o.K)
		return "", ""
	case "Clear":
		m.Clear()
		for k := range model {
			delete(model, k)
		}
		return "", ""
	case "RangeAll":
		var items []string
		m.Range(func(k string, v *ds.VMValue) bool {
			items = append(items, k+"="+rv(v, true))
			return true
		})
		sort.Strings(items)
		var w []string
		for k, v := range model {
			w = append(w, fmt.Sprintf("%s=%d", k, v))
		}
		sort.Strings(w)
		return strings.Join(items, ","), strings.Join(w, ",")
	case "RangeStop":
		n := 0
		okPair := true
		m.Range(func(k string, v *ds.VMValue) bool {
			n++
			if mv(k) != rv(v, true) {
				okPair = false
			}
			return false
		})
		wn := 0
		if len(model) > 0 {
			wn = 1
		}
		return fmt.Sprintf("%d/%v", n, okPair), fmt.Sprintf("%d/true", wn)
	case "Length":
		return fmt.Sprint(m.Length()), fmt.Sprint(len(model))
	case "JSONRoundTrip":
		b, err := m.ToJSON()
		if err != nil {
			return "err:" + err.Error(), "ok"
		}
		if err := m.UnmarshalJSON(b); err != nil {
			return "err:" + err.Error(), "ok"
		}
		return "ok", "ok"
	case "AsBool":
		d := ds.NewDictVal(m)
		return fmt.Sprint(d.V().AsBool()), fmt.Sprint(len(model) != 0)
	case "Len":
		d := ds.NewDictVal(m)
		vm := ds.NewVM()
		vm.Attrs.Store("dd", d.V())
		if err := vm.Run("dd.len()"); err != nil {
			return "err:" + err.Error(), fmt.Sprint(len(model))
		}
		return vm.Ret.ToString(), fmt.Sprint(len(model))
	case "EqFresh", "EqSuper", "EqSub":
		fresh := &ds.ValueMap{}
		keys := make([]string, 0, len(model))
		for k := range model {
			keys = append(keys, k)
		}
		sort.Strings(keys)
		for _, k := range keys {
			fresh.Store(k, ds.NewIntVal(ds.IntType(model[k])))
		}
		want = "true/true"
		if o.Op == "EqSuper" {
			fresh.Store("zz", ds.NewIntVal(1))
			want = "false/false"
		}
		if o.Op == "EqSub" {
			if len(keys) == 0 {
				return "", ""
			}
			fresh.Delete(keys[0])
			want = "false/false"
		}
		d1, d2 := ds.NewDictVal(m).V(), ds.NewDictVal(fresh).V()
		return fmt.Sprintf("%v/%v", ds.ValueEqual(d1, d2, true), ds.ValueEqual(d2, d1, true)), want
	}
	panic("unknown op " + o.Op)
}

func c12Alphabet(keys, vals int) []mapOp {
	ks := []string{"a", "b", "c", "d"}[:keys]
	var ops []mapOp
	for _, k := range ks {
		for v := 1; v <= vals; v++ {
			ops = append(ops, mapOp{Op: "Store", K: k, V: v}, mapOp{Op: "LoadOrStore", K: k, V: v})
		}
		ops = append(ops, mapOp{Op: "Load", K: k}, mapOp{Op: "LoadAndDelete", K: k}, mapOp{Op: "Delete", K: k})
	}
	for _, o := range []string{"Clear", "RangeAll", "RangeStop", "Length", "JSONRoundTrip", "AsBool", "Len", "EqFresh", "EqSuper", "EqSub"} {
		ops = append(ops, mapOp{Op: o})
	}
	return ops
}

func canonState(m *ds.ValueMap) string {
	st := m.VerifDump()
	var sb strings.Builder
	fmt.Fprintf(&sb, "am=%v dn=%v mi=%d|", st.Amended, st.DirtyNil, st.Misses)
	for _, e := range st.Entries {
		fmt.Fprintf(&sb, "%s:r=%v,%s d=%v,%s same=%v;", e.Key, e.InRead, e.ReadP, e.InDirty, e.DirtyP, e.SameEntry)
	}
	return sb.String()
}

func c12Seq(c c12Case, res *harn.Result) {
	ops := c12Alphabet(c.Keys, c.Vals)
	type node struct{ path []int }
	build := func(path []int) (*ds.ValueMap, map[string]int) {
		m := &ds.ValueMap{}
		model := map[string]int{}
		for _, i := range path {
			applyOp(m, model, ops[i])
		}
		return m, model
	}
	seen := map[string]bool{}
	m0, _ := build(nil)
	seen[canonState(m0)] = true
	frontier := []node{{}}
	var transitions int64
	maxDepth := 0
	mismatches := map[string]bool{}
	for len(frontier) > 0 {
		n := frontier[0]
		frontier = frontier[1:]
		if len(n.path) > maxDepth {
			maxDepth = len(n.path)
		}
		for oi, o := range ops {
			m, model := build(n.path)
			var got, want string
			site, p := harn.Guard(func() { got, want = applyOp(m, model, o) })
			transitions++
			if p {
				res.Violations = append(res.Violations, harn.Violation{Signature: site, What: fmt.Sprintf("panic in %s after %s", o, pathStr(ops, n.path))})
				continue
			}
			if got != want && !mismatches[o.Op] {
				mismatches[o.Op] = true
				res.Violations = append(res.Violations, harn.Violation{
					Signature: "C12:seq:" + o.Op,
					What:      fmt.Sprintf("after [%s], %s returned %q; a plain map gives %q (internal state before: %s)", pathStr(ops, n.path), o, got, want, canonState(func() *ds.ValueMap { mm, _ := build(n.path); return mm }())),
				})
			}
			k := canonState(m)
			if !seen[k] {
				seen[k] = true
				np := append(append([]int{}, n.path...), oi)
				frontier = append(frontier, node{np})
			}
		}
	}
	res.Stats["states"] += int64(len(seen))
	res.Stats["transitions"] += transitions
	res.Stats["seq_depth"] = int64(maxDepth)
	res.Sample = fmt.Sprintf("sequential closure keys=%d vals=%d: %d states, %d transitions, depth %d", c.Keys, c.Vals, len(seen), transitions, maxDepth)
	res.Outcome = "seq"
}

func pathStr(ops []mapOp, path []int) string {
	var p []string
	for _, i := range path {
		p = append(p, ops[i].String())
	}
	return strings.Join(p, "; ")
}

// c12Conc is provided by c12_conc.go when built with the sync-shim overlay.
var c12Conc func(c c12Case, res *harn.Result)
var c12ConcEnumerate func(tier string, emit func(string, any))

func c12Enumerate(tier string, seed int64, emit func(string, any)) {
	emit("sequential", c12Case{Kind: "seq", Keys: 3, Vals: 2})
	emit("sequential", c12Case{Kind: "seq", Keys: 2, Vals: 2})
	emit("sequential", c12Case{Kind: "seq", Keys: 4, Vals: 1}) // four keys: tombstones and dirty-only keys can balance each other
	if tier == "thorough" {
		emit("sequential", c12Case{Kind: "seq", Keys: 4, Vals: 2})
	}
	if c12ConcEnumerate != nil {
		c12ConcEnumerate(tier, emit)
	} else {
		emit("concurrent", c12Case{Kind: "conc-missing"})
	}
}

func c12Run(raw json.RawMessage) harn.Result {
	var c c12Case
	if err := json.Unmarshal(raw, &c); err != nil {
		panic(err)
	}
	res := harn.Result{Stats: map[string]int64{}, Nontrivial: true}
	switch c.Kind {
	case "seq":
		c12Seq(c, &res)
	case "conc":
		c12Conc(c, &res)
	default:
		res.Violations = append(res.Violations, harn.Violation{Signature: "MACHINERY:no-shim", What: "binary built without the sync-shim overlay; concurrent part cannot run"})
	}
	return res
}

func init() {
	harn.Register(&harn.Check{
		ID:   "C12",
		Rule: "sequential: BFS from the zero map over all canonical internal states (read/dirty membership, shared entry, entry pointer state and value, amended, dirty==nil, misses) to closure; in every state every operation of the alphabet (Store/Load/LoadOrStore/LoadAndDelete/Delete/Clear/Range/Length/JSON round trip/dict len, truthiness, == against fresh dicts) must agree with a plain map. concurrent: for every scenario (initial state x 2-3 threads x 1-2 operations on colliding keys) every schedule with <= bound preemptions at each shimmed mutex/atomic operation is executed; the call/return history must be linearizable w.r.t. the plain map and the quiescent contents must match a linearization. states/transitions count the sequential closure plus scheduler points; a case is one closure or one scenario.",
		Assume: []string{
			"interleavings are explored at mutex/atomic-operation granularity under sequential consistency",
			"Range and Length are held to sync.Map's documented weak contract when they overlap writers (exact agreement is decided by the sequential closure)",
		},
		Enumerate: c12Enumerate,
		Run:       c12Run,
		Budget:    map[string]time.Duration{"quick": 400 * time.Second, "thorough": 30 * time.Minute},
		Extra: func(stats map[string]int64, cov map[string]any) {
			cov["states"] = stats["states"]
			cov["transitions"] = stats["transitions"] + stats["sched_points"]
			cov["traces_validated_against_impl"] = stats["schedules"]
		},
		MinOutcomes: 1,
	})
}
