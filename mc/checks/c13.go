package checks

import (
	"encoding/json"
	"fmt"
	"strings"
	"time"

	"verifmc/drv"
	"verifmc/gen"
	"verifmc/harn"
)

// C13 — string literals and templates reproduce text exactly.

type c13Case struct {
	Kind  string // literal | template
	Text  string `json:",omitempty"` // literal: the text to reproduce
	Delim string `json:",omitempty"`
	Esc   bool   `json:",omitempty"` // control characters written as escapes
	Segs  []tplSeg `json:",omitempty"`
	Src   string
}

type tplSeg struct {
	Lit   string `json:",omitempty"` // literal text (already part of Src in escaped form)
	Hole  string `json:",omitempty"` // hole program
	Style int    `json:",omitempty"` // 0 literal, 1 {..}, 2 {% .. %}
	NoVal bool   `json:",omitempty"` // hole ends in a block statement: contributes ''
	Want  string `json:",omitempty"` // the text the hole contributes, when it is stated rather than obtained by evaluating the hole alone
}

var litSymbols = []string{"a", "'", "\"", "`", "\\", "{", "}", "%", "\n", "\r", "\t", "中", "\x1e", " "}

// buildLiteral spells text in the given delimiter style using only the
// documented escapes; ok=false when the text is outside that style's domain.
func buildLiteral(text, delim string, esc bool) (string, bool) {
	var sb strings.Builder
	sb.WriteString(delim)
	for _, r := range text {
		ch := string(r)
		switch {
		case ch == "\\":
			sb.WriteString("\\\\")
		case ch == delim:
			if delim == "'" {
				sb.WriteString("\\'")
			} else if delim == "\"" {
				sb.WriteString("\\\"")
			} else {
				return "", false // no documented escape for the template delimiters
			}
		case ch == "{" && (delim == "`" || delim == "\x1e"):
			sb.WriteString("\\{")
		case ch == "}" && (delim == "`" || delim == "\x1e") && esc:
			sb.WriteString("\\}")
		case ch == "\n" && esc:
			sb.WriteString("\\n")
		case ch == "\r" && esc:
			sb.WriteString("\\r")
		case ch == "\t" && esc:
			sb.WriteString("\\t")
		default:
			sb.WriteString(ch)
		}
	}
	sb.WriteString(delim)
	return sb.String(), true
}

var holePrograms = []tplSeg{
	{Hole: "1"}, {Hole: "x"}, {Hole: "x+1"}, {Hole: "y"}, {Hole: "1.5"}, {Hole: "null"}, {Hole: "[1,2]"}, {Hole: "{'a':1}"}, {Hole: "'q'"},
	{Hole: "x = x + 1"}, {Hole: "z = 'w'; z"}, {Hole: "x; y"}, {Hole: "2d1"}, {Hole: "x > 1 ? 'big' : 'small'"},
	{Hole: "if x {7}", NoVal: true}, {Hole: "if 0 {7} else {8}", NoVal: true}, {Hole: "i=0; while i<2 {i=i+1}", NoVal: true}, {Hole: "if x {x = 9}; x"},
	{Hole: "`n{x}m`"}, {Hole: "'}'"}, {Hole: "func g(){5}; g()"},
	{Hole: "i=0; while i<1 { i=i+1; `q{ if 1 {break} }` }", NoVal: true}, {Hole: "i=0; while i<2 { i=i+1; `{% continue %}r` }", NoVal: true}, {Hole: "while 1 { `s{break}` }", NoVal: true},
	{Hole: "i=0; while i<2 { i=i+1; if i { `{% if 1 { continue } %}` } }; i"},
	// a single hole whose value comes out of a conditional (the template is a string whatever the hole yields)
	{Hole: "1 ? 2"}, {Hole: "x ? 2 : 'x'"}, {Hole: "0 ? 1 : 2.5"}, {Hole: "x ?? 3"}, {Hole: "0 ? 1, 1 ? 3"}, {Hole: "1 ? 'q'"}, {Hole: "x && 5"}, {Hole: "0 || 'z'"},
	// a string / number literal statement directly in front of a template that starts with a literal-only hole, and templates whose
	// holes are all literals (what a compiler might fold)
	// (their text is stated here: evaluating the hole program alone would go through the same compiler)
	{Hole: "'a'; `{'b'}c`", Want: "bc"}, {Hole: "7; `{8}{'z'}`", Want: "8z"}, {Hole: "`{'p'}{'q'}`", Want: "pq"}, {Hole: "z = 'w'; `{'v'}{z}`", Want: "vw"}, {Hole: "'a' + `{'b'}c`", Want: "abc"}, {Hole: "`{1}` + `{2}`", Want: "12"}, {Hole: "[`{'m'}`, 'n'][0]", Want: "m"},
	{Hole: "'s'", Want: "s"}, {Hole: "5", Want: "5"}, {Hole: "'a'; 'b'", Want: "b"},
	// containers: the same array / dict OBJECT shown by several parts of one template, directly and inside another container
	// (ya / yd are never mutated by another hole: a part is rendered when the template is assembled, so a container changed by a
	// later hole legitimately shows its final state)
	{Hole: "ya"}, {Hole: "yd"}, {Hole: "[ya, 3]"}, {Hole: "q = [7, 8]"}, {Hole: "q"},
	// blocks whose statements all leave no value (index / attribute / slice assignment): they contribute the empty string
	{Hole: "xa[0] = 5", NoVal: true}, {Hole: "xd.k = 2", NoVal: true}, {Hole: "xa[0:1] = [7]", NoVal: true}, {Hole: "&xc.k = 3", NoVal: true}, {Hole: "xa[0] = 5; xd.k = 2", NoVal: true}, {Hole: "if x { xa[1] = 4 }", NoVal: true},
}

var tplLits = []string{"", "a", "中 b", "'\"", "\\n", "%}"}

func c13Enumerate(tier string, seed int64, emit func(string, any)) {
	thorough := tier == "thorough"
	maxLen := 4
	if thorough {
		maxLen = 5
	}
	lit := func(text string) {
		hasCtl := strings.ContainsAny(text, "\n\r\t}")
		for _, d := range []string{"'", "\"", "`", "\x1e"} {
			for _, esc := range []bool{false, true} {
				if esc && !hasCtl {
					continue
				}
				src, ok := buildLiteral(text, d, esc)
				if !ok {
					emit("literal/out-of-domain", c13Case{Kind: "skip"})
					continue
				}
				emit("literal", c13Case{Kind: "literal", Text: text, Delim: d, Esc: esc, Src: src})
			}
		}
	}
	gen.StringsUpTo(litSymbols, maxLen, lit)
	for _, n := range []int{31, 32, 33, 63, 64, 65, 255, 256, 1000} {
		lit(strings.Repeat("a", n))
		lit(strings.Repeat("中\\", n))
	}
	// templates: up to 3 (4) segments
	var segs []tplSeg
	for _, l := range tplLits {
		segs = append(segs, tplSeg{Lit: l})
	}
	for _, h := range holePrograms {
		h1, h2 := h, h
		h1.Style, h2.Style = 1, 2
		segs = append(segs, h1, h2)
	}
	maxSeg := 2
	if thorough {
		maxSeg = 3
	}
	var rec func(cur []tplSeg)
	build := func(cur []tplSeg, delim string) (string, bool) {
		var sb strings.Builder
		sb.WriteString(delim)
		for _, s := range cur {
			switch s.Style {
			case 0:
				l, ok := buildLiteral(s.Lit, delim, false)
				if !ok {
					return "", false
				}
				sb.WriteString(l[len(delim) : len(l)-len(delim)])
			case 1:
				sb.WriteString("{" + s.Hole + "}")
			case 2:
				sb.WriteString("{% " + s.Hole + " %}")
			}
		}
		sb.WriteString(delim)
		return sb.String(), true
	}
	rec = func(cur []tplSeg) {
		if len(cur) > 0 {
			for _, d := range []string{"`", "\x1e"} {
				if src, ok := build(cur, d); ok {
					emit("template", c13Case{Kind: "template", Segs: cur, Delim: d, Src: src})
				}
			}
		}
		if len(cur) == maxSeg {
			return
		}
		for si, s := range segs {
			if len(cur) >= 2 && si >= len(tplLits)+2*25 {
				break // third segments (thorough) come from the literals and the first 25 hole programs: the full cube does not fit any budget
			}
			if len(cur) > 0 && cur[len(cur)-1].Style == 0 && s.Style == 0 {
				continue // adjacent literals are one literal
			}
			if s.Style == 0 && s.Lit == "" {
				continue
			}
			rec(append(append([]tplSeg{}, cur...), s))
		}
	}
	rec(nil)
	// 3-segment shapes over a reduced set (quick), always with a literal in the middle
	for _, a := range segs[len(tplLits):] {
		for _, b := range segs[len(tplLits):] {
			cur := []tplSeg{a, {Lit: "-"}, b}
			if src, ok := build(cur, "`"); ok {
				emit("template/3", c13Case{Kind: "template", Segs: cur, Delim: "`", Src: src})
			}
		}
	}
	// nesting ladders
	for depth := 1; depth <= 24; depth++ {
		for style := 1; style <= 2; style++ {
			open, close := "{", "}"
			if style == 2 {
				open, close = "{% ", " %}"
			}
			src := strings.Repeat("`<"+open, depth) + "x" + strings.Repeat(close+">`", depth)
			emit("template/nest", c13Case{Kind: "nest", Text: strings.Repeat("<", depth) + "2" + strings.Repeat(">", depth), Src: src, Esc: depth > 20})
		}
	}
}

const c13Prelude = "x = 2; y = 's'; xa = [1,2]; xd = {'k':1}; &xc = 1; ya = [1,2]; yd = {'k':[1]}"

func c13Run(raw json.RawMessage) harn.Result {
	var c c13Case
	if err := json.Unmarshal(raw, &c); err != nil {
		panic(err)
	}
	res := harn.Result{Stats: map[string]int64{}}
	if c.Kind == "skip" {
		res.Outcome = "out-of-domain"
		return res
	}
	res.Nontrivial = true
	viol := func(sig, what string) {
		res.Violations = append(res.Violations, harn.Violation{Signature: sig, What: fmt.Sprintf("source %q: %s", c.Src, what)})
	}
	vm := drv.NewVM(drv.AllOn())
	warm := c.Kind != "literal" && len(c.Src)%32 == 3 // one template case in 32 on a well-used VM (both VMs of the comparison)
	if c.Kind != "literal" { // a literal refers to no variable
		if err := vm.Run(c13Prelude); err != nil {
			panic(err)
		}
		if warm {
			drv.WarmUp(vm)
		}
	}
	var err error
	if site, p := harn.Guard(func() { err = vm.Run(c.Src) }); p {
		viol(site, "panic")
		return res
	}
	switch c.Kind {
	case "literal":
		res.Outcome = "literal"
		if err != nil {
			viol("C13:literal-rejected", "in-domain literal rejected: "+err.Error())
			return res
		}
		got, ok := vm.Ret.ReadString()
		if !ok || got != c.Text || vm.RestInput != "" {
			viol("C13:literal", fmt.Sprintf("delimiter %q: evaluates to %q (string=%v, rest %q), expected %q", c.Delim, got, ok, vm.RestInput, c.Text))
		}
	case "nest":
		res.Outcome = "nest"
		if c.Esc { // deeper than the limit: must be an error
			if err == nil {
				viol("C13:nest-limit", "template nesting beyond the limit returned "+vm.Ret.ToString())
			}
			return res
		}
		if err != nil {
			viol("C13:nest-rejected", "nesting within the limit rejected: "+err.Error())
			return res
		}
		if got, _ := vm.Ret.ReadString(); got != c.Text {
			viol("C13:nest", fmt.Sprintf("got %q expected %q", got, c.Text))
		}
	case "template":
		res.Outcome = "template"
		// differential: evaluate each hole program alone, in order, on a VM in the same state
		ref := drv.NewVM(drv.AllOn())
		_ = ref.Run(c13Prelude)
		if warm {
			drv.WarmUp(ref)
		}
		var want strings.Builder
		for _, s := range c.Segs {
			if s.Style == 0 {
				want.WriteString(s.Lit)
				continue
			}
			if e := ref.Run(s.Hole); e != nil {
				panic("hole program fails alone: " + s.Hole + ": " + e.Error())
			}
			if s.Want != "" {
				if got := ref.Ret.ToString(); got != s.Want {
					viol("C13:template", fmt.Sprintf("hole program %q evaluated alone gives %q, its text is %q", s.Hole, got, s.Want))
				}
				want.WriteString(s.Want)
			} else if !s.NoVal {
				want.WriteString(ref.Ret.ToString())
			}
		}
		if err != nil {
			viol("C13:template-rejected", "template rejected: "+err.Error())
			return res
		}
		got, ok := vm.Ret.ReadString()
		if !ok || got != want.String() || vm.RestInput != "" {
			viol("C13:template", fmt.Sprintf("evaluates to %q (rest %q), expected %q", got, vm.RestInput, want.String()))
		}
		if a, b := drv.CanonAttrs(vm.Attrs), drv.CanonAttrs(ref.Attrs); a != b {
			viol("C13:template-vars", fmt.Sprintf("variables after the template %s differ from evaluating the holes in order %s", a, b))
		}
	}
	return res
}

func init() {
	harn.Register(&harn.Check{
		ID:   "C13",
		Rule: "literals: every text of <= 4 (thorough 5) symbols over {a ' \" ` \\ { } % LF CR TAB CJK 0x1E space} x 4 delimiter styles, spelled with the documented escapes (raw and escaped control characters), plus size ladders; must evaluate to exactly the text with empty rest. templates: every template of <= 2 (thorough 3) segments (6 literal texts, 51 hole programs x 2 hole styles incl. assignments, blocks, loops with break / continue in nested templates, value-less index / attribute / slice assignments, nested template, function definition, the same container object shown by several parts) x both template delimiters, 3-segment shapes, nesting ladders 1..24; result must equal the concatenation of literal texts and the string form of each hole's value obtained by evaluating the hole program alone, in order, on a second VM in the same state; variables must match too. Distinct by source text; out-of-domain (text, delimiter) pairs are counted separately and are not cases.",
		Enumerate: c13Enumerate,
		Run:       c13Run,
		Budget:    map[string]time.Duration{"quick": 400 * time.Second, "thorough": 40 * time.Minute},
	})
}
