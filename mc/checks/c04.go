package checks

import (
	"encoding/json"
	"fmt"
	"regexp"
	"sort"
	"strconv"
	"strings"
	"time"

	ds "github.com/sealdice/dicescript"
	"golang.org/x/exp/rand"
	"verifmc/choice"
	"verifmc/drv"
	"verifmc/harn"
	"verifmc/rules"
)

// C04 — every dice outcome is legal and equals what its displayed dice imply.
// All face sequences of each parameter tuple are enumerated through the
// VerifRoll seam (choice-prefix DFS); the oracle is the independent rule
// function of package rules plus a parser of the displayed dice.

type c04Case struct {
	Kind string // common | adv | chain | fate | coc | wod | dc | big
	Src  string // VM syntax
	X, Y int
	Mode int // 0 none 1 kl 2 kh 3 dl 4 dh
	N    int
	Min  *int `json:",omitempty"`
	Max  *int `json:",omitempty"`
	Z    int  `json:",omitempty"` // chain sides
	// coc
	Bonus bool `json:",omitempty"`
	// wod/dc
	Pool, Add, Sides, Thr int
	GE                    bool
	MaxPts, MaxDev        int
	Second                *c04Case `json:",omitempty"` // pair: a second term of the same expression
	Def                   string   `json:",omitempty"` // DefaultDiceSideExpr for this case (faceless dice: the Y of the case)
	PrevDef               string   `json:",omitempty"` // a faceless die was rolled on the same VM under this earlier setting
	Extra                 int      `json:",omitempty"` // dice of one side drawn by nested rolls inside the term's own arguments, before the term's dice
	Bound                 string   `json:",omitempty"` // "max" / "min": the pool is evaluated in that mode (no dice are drawn) under a budget of 400
	Script                int      `json:",omitempty"` // scripted faces: the first Script draws show the top face (explode), all later ones 1
}

func ip(i int) *int { return &i }

func numTxt(n int) string {
	if n < 0 {
		return fmt.Sprintf("(%d)", n)
	}
	return strconv.Itoa(n)
}

var modeNames = [][]string{{""}, {"kl", "q"}, {"kh", "k"}, {"dl"}, {"dh"}}

func c04Enumerate(tier string, seed int64, emit func(string, any)) {
	thorough := tier == "thorough"
	maxX, maxY := 4, 4
	if thorough {
		maxX, maxY = 5, 6
	}
	variant := 0
	for x := 0; x <= maxX; x++ {
		for y := 0; y <= maxY; y++ {
			if (x == 0 || y == 0) && !(x <= 1 && y <= 2) && !(x == 0 && y == 0) {
				// illegal corner: one representative each is enough
				if !(x == 0 && y == 3) && !(x == 2 && y == 0) {
					continue
				}
			}
			for mode := 0; mode <= 4; mode++ {
				ns := []int{0}
				if mode != 0 {
					ns = nil
					for n := -1; n <= x+1; n++ {
						ns = append(ns, n)
					}
					ns = append(ns, 1000) // stands for "no number written"
				}
				for _, n := range ns {
					type mm struct{ min, max *int }
					mms := []mm{{nil, nil}}
					for m := 0; m <= y+1; m++ {
						mms = append(mms, mm{ip(m), nil}, mm{nil, ip(m)})
					}
					if !thorough && mode != 0 && (n < 0 || n > x) {
						mms = mms[:3]
					}
					for _, m := range mms {
						variant++
						names := modeNames[mode]
						name := names[variant%len(names)]
						d := "d"
						if variant%5 == 0 {
							d = "D"
						}
						src := numTxt(x) + d + numTxt(y)
						nn := n
						if mode != 0 {
							if n == 1000 {
								src += name
								nn = 1
							} else {
								src += name + numTxt(n)
							}
						}
						if m.min != nil {
							src += "min" + numTxt(*m.min)
						}
						if m.max != nil {
							src += "max" + numTxt(*m.max)
						}
						emit("common", c04Case{Kind: "common", Src: src, X: x, Y: y, Mode: mode, N: nn, Min: m.min, Max: m.max})
						if x >= 1 && y >= 1 {
							// the same term with the sides left out and supplied by DefaultDiceSideExpr (plain number, or an expression),
							// on a fresh VM and on a VM that rolled a faceless die under a different setting before
							fsrc := numTxt(x) + d + src[len(numTxt(x)+d+numTxt(y)):]
							def := strconv.Itoa(y)
							if variant%3 == 0 {
								def = fmt.Sprintf("%d+1", y-1)
							}
							fc := c04Case{Kind: "common", Src: fsrc, X: x, Y: y, Mode: mode, N: nn, Min: m.min, Max: m.max, Def: def}
							if variant%2 == 0 {
								fc.PrevDef = strconv.Itoa(y + 2)
							}
							emit("faceless", fc)
						}
						if x >= 1 && y >= 1 && (mode != 0 || m.min != nil || m.max != nil) && variant%2 == 1 {
							// the term's own arguments contain rolls (dice of one side, so their value is known): sides written as (Yd1),
							// the modifier's number as (Nd1) / ((N-1)d1+1)
							tail := src[len(numTxt(x)+d+numTxt(y)):]
							nsrc := numTxt(x) + d + "(" + strconv.Itoa(y) + "d1)" + tail
							emit("nested arguments", c04Case{Kind: "common", Src: nsrc, X: x, Y: y, Mode: mode, N: nn, Min: m.min, Max: m.max, Extra: y})
							if mode != 0 && n != 1000 && n >= 1 {
								nsrc2 := numTxt(x) + d + numTxt(y) + name + "(" + strconv.Itoa(n) + "d1)"
								if m.min == nil && m.max == nil {
									emit("nested arguments", c04Case{Kind: "common", Src: nsrc2, X: x, Y: y, Mode: mode, N: nn, Extra: n})
								}
							}
						}
					}
				}
			}
		}
	}
	// advantage / disadvantage, dY alone, chains
	for y := 1; y <= 6; y++ {
		emit("adv", c04Case{Kind: "common", Src: fmt.Sprintf("d%d优势", y), X: 2, Y: y, Mode: 2, N: 1})
		emit("adv", c04Case{Kind: "common", Src: fmt.Sprintf("d%d劣势", y), X: 2, Y: y, Mode: 1, N: 1})
		emit("adv", c04Case{Kind: "common", Src: fmt.Sprintf("D%d優勢", y), X: 2, Y: y, Mode: 2, N: 1})
		emit("adv", c04Case{Kind: "common", Src: fmt.Sprintf("d%d劣勢", y), X: 2, Y: y, Mode: 1, N: 1})
		emit("adv", c04Case{Kind: "common", Src: fmt.Sprintf("d%d", y), X: 1, Y: y})
		emit("adv", c04Case{Kind: "common", Src: fmt.Sprintf("d%dk", y), X: 1, Y: y, Mode: 2, N: 1})
	}
	for x := 1; x <= 2; x++ {
		for y := 1; y <= 3; y++ {
			for z := 1; z <= 3; z++ {
				emit("chain", c04Case{Kind: "chain", Src: fmt.Sprintf("%dd%dd%d", x, y, z), X: x, Y: y, Z: z})
				emit("chain", c04Case{Kind: "chain", Src: fmt.Sprintf("(%dd%d)d%d", x, y, z), X: x, Y: y, Z: z})
			}
		}
	}
	// pairs of terms in ONE expression: per-term state (keep / drop / min / max) must not leak into the neighbour
	var pterms []c04Case
	for _, t := range []c04Case{
		{X: 1, Y: 3}, {X: 2, Y: 2}, {X: 2, Y: 3, Mode: 2, N: 1}, {X: 2, Y: 3, Mode: 1, N: 1}, {X: 3, Y: 2, Mode: 3, N: 1}, {X: 3, Y: 2, Mode: 4, N: 2},
		{X: 1, Y: 4, Min: ip(3)}, {X: 1, Y: 4, Max: ip(2)}, {X: 2, Y: 3, Mode: 2, N: 1, Min: ip(2)}, {X: 2, Y: 3, Max: ip(1)},
	} {
		t.Kind = "common"
		t.Src = numTxt(t.X) + "d" + numTxt(t.Y)
		if t.Mode != 0 {
			t.Src += modeNames[t.Mode][0] + numTxt(t.N)
		}
		if t.Min != nil {
			t.Src += "min" + numTxt(*t.Min)
		}
		if t.Max != nil {
			t.Src += "max" + numTxt(*t.Max)
		}
		pterms = append(pterms, t)
	}
	for _, a := range pterms {
		for _, b := range pterms {
			b := b
			for _, join := range []string{" + ", " * 100 + "} {
				c := a
				c.Kind = "pair"
				c.Src = a.Src + join + b.Src
				c.Second = &b
				c.N = a.N
				c.Thr = len(join) // 3: sum, else weighted
				emit("pairs", c)
			}
		}
	}
	emit("fate", c04Case{Kind: "fate", Src: "f"})
	emit("fate", c04Case{Kind: "fate", Src: "F"})
	maxB := 2
	if thorough {
		maxB = 3
	}
	for n := -1; n <= maxB; n++ {
		for _, bonus := range []bool{true, false} {
			l := "p"
			if bonus {
				l = "b"
			}
			emit("coc", c04Case{Kind: "coc", Src: l + numTxt(n), N: n, Bonus: bonus})
			if n == 1 {
				emit("coc", c04Case{Kind: "coc", Src: l, N: 1, Bonus: bonus})
				emit("coc", c04Case{Kind: "coc", Src: strings.ToUpper(l), N: 1, Bonus: bonus})
			}
		}
	}
	// WoD: pool a add m sides k thr / q thr
	maxPool := 3
	maxPts := 7
	if thorough {
		maxPool, maxPts = 3, 9
	}
	for pool := -1; pool <= maxPool; pool++ {
		for sides := 0; sides <= 4; sides++ {
			for add := -1; add <= sides+1; add++ {
				for thr := 0; thr <= sides+1; thr++ {
					for _, ge := range []bool{true, false} {
						if (pool <= 0 || sides == 0) && !(add == 2 && thr == 1 && ge) {
							continue
						}
						kq := "k"
						if !ge {
							kq = "q"
						}
						src := fmt.Sprintf("%sa%sm%s%s%s", numTxt(pool), numTxt(add), numTxt(sides), kq, numTxt(thr))
						emit("wod", c04Case{Kind: "wod", Src: src, Pool: pool, Add: add, Sides: sides, Thr: thr, GE: ge, MaxPts: maxPts, MaxDev: -1})
					}
				}
			}
		}
	}
	for _, add := range []int{0, 2, 5, 10, 11} { // defaults: d10, threshold 8
		emit("wod", c04Case{Kind: "wod", Src: fmt.Sprintf("2a%d", add), Pool: 2, Add: add, Sides: 10, Thr: 8, GE: true, MaxPts: 3, MaxDev: -1})
		emit("wod", c04Case{Kind: "wod", Src: fmt.Sprintf("a%d", add), Pool: 1, Add: add, Sides: 10, Thr: 8, GE: true, MaxPts: 3, MaxDev: -1})
	}
	// suffix lists in every order and with repeats: the LAST m and the LAST of k / q decide (each roll starts from the defaults)
	for _, sfx := range []struct {
		s          string
		sides, thr int
		ge         bool
	}{
		{"m3k2", 3, 2, true}, {"k2m3", 3, 2, true}, {"m3q1", 3, 1, false}, {"q1m3", 3, 1, false}, {"m3q1k2", 3, 2, true}, {"m3k2q1", 3, 1, false}, {"q1m3k2", 3, 2, true}, {"k2m3q1", 3, 1, false}, {"q1k2m3", 3, 2, true},
		{"m3k1k2", 3, 2, true}, {"m3q2q1", 3, 1, false}, {"m2m3k2", 3, 2, true}, {"m3k2m2", 2, 2, true}, {"m3q1k2q1", 3, 1, false}, {"m3k3q1k2", 3, 2, true},
	} {
		for _, pool := range []int{1, 2} {
			for _, add := range []int{0, 3} {
				emit("wod suffix orders", c04Case{Kind: "wod", Src: fmt.Sprintf("%da%d%s", pool, add, sfx.s), Pool: pool, Add: add, Sides: sfx.sides, Thr: sfx.thr, GE: sfx.ge, MaxPts: maxPts, MaxDev: -1})
			}
		}
		// two pools in one expression: the second starts from the defaults again
		emit("wod suffix orders", c04Case{Kind: "wod", Src: fmt.Sprintf("0 * 1a0m1q1 + 1a0%s", sfx.s), Pool: 1, Add: 0, Sides: sfx.sides, Thr: sfx.thr, GE: sfx.ge, Extra: 1, MaxPts: maxPts, MaxDev: -1})
	}
	// pools in max / min mode: whatever comes back describes itself consistently (as many dice listed as counted, as many
	// success marks as successes); a pool that explodes for ever in that mode is an error, never a made-up value
	for _, b := range []string{"max", "min"} {
		for _, src := range []string{"2a10", "2a11", "3a5", "1a2m2", "2a0m6k4", "3a9q2", "2c8", "2c10", "2c11m10", "1c2m2", "14a10", "15a10", "2a10 + 2c10"} {
			emit("pools in max / min mode", c04Case{Kind: "pool-bound", Src: src, Bound: b})
		}
	}
	// Double Cross: pool c crit m sides
	for pool := -1; pool <= maxPool; pool++ {
		for sides := 0; sides <= 4; sides++ {
			for crit := 0; crit <= sides+1; crit++ {
				if (pool <= 0 || sides == 0) && crit != 2 {
					continue
				}
				src := fmt.Sprintf("%sc%sm%s", numTxt(pool), numTxt(crit), numTxt(sides))
				emit("dc", c04Case{Kind: "dc", Src: src, Pool: pool, Add: crit, Sides: sides, MaxPts: maxPts, MaxDev: -1})
			}
		}
	}
	for _, crit := range []int{2, 7, 10, 11} {
		emit("dc", c04Case{Kind: "dc", Src: fmt.Sprintf("2c%d", crit), Pool: 2, Add: crit, Sides: 10, MaxPts: 3, MaxDev: -1})
	}
	// long explosions (faces scripted: the first K draws explode, the rest do not): the dice listing stops at 100 dice,
	// all-or-nothing
	for _, pool := range []int{1, 2, 7, 14, 15} {
		for _, k := range []int{40, 85, 97, 98, 99, 100, 101, 130} {
			emit("long explosions", c04Case{Kind: "wod", Src: fmt.Sprintf("%da2", pool), Pool: pool, Add: 2, Sides: 10, Thr: 8, GE: true, Script: k})
			emit("long explosions", c04Case{Kind: "wod", Src: fmt.Sprintf("%da2m10q3", pool), Pool: pool, Add: 2, Sides: 10, Thr: 3, GE: false, Script: k})
			emit("long explosions", c04Case{Kind: "dc", Src: fmt.Sprintf("%dc2", pool), Pool: pool, Add: 2, Sides: 10, Script: k})
		}
	}
	// large values: default face 1, <= MaxDev deviations among the first MaxPts dice
	bigX := []int{15, 100, 101, 1000}
	bigY := []int{6, 100, 2147483647, 2147483648, 4611686018427387904, 9223372036854775807}
	if thorough {
		bigX = append(bigX, 20000)
	}
	for _, x := range bigX {
		for _, y := range bigY {
			dev := 2
			if x > 100 {
				dev = 1
			}
			emit("big", c04Case{Kind: "common", Src: fmt.Sprintf("%dd%d", x, y), X: x, Y: y, MaxPts: 24, MaxDev: dev})
			emit("big", c04Case{Kind: "common", Src: fmt.Sprintf("%dd%dk3", x, y), X: x, Y: y, Mode: 2, N: 3, MaxPts: 24, MaxDev: dev})
		}
		emit("big", c04Case{Kind: "wod", Src: fmt.Sprintf("%da0m6k4", x), Pool: x, Add: 0, Sides: 6, Thr: 4, GE: true, MaxPts: 16, MaxDev: 2})
		emit("big", c04Case{Kind: "wod", Src: fmt.Sprintf("%da6m6k4", x), Pool: x, Add: 6, Sides: 6, Thr: 4, GE: true, MaxPts: 16, MaxDev: 2})
		emit("big", c04Case{Kind: "dc", Src: fmt.Sprintf("%dc6m6", x), Pool: x, Add: 6, Sides: 6, MaxPts: 16, MaxDev: 2})
	}
	for _, pool := range []int{20000, 20001} {
		emit("big", c04Case{Kind: "wod", Src: fmt.Sprintf("%da0m6k4", pool), Pool: pool, Add: 0, Sides: 6, Thr: 4, GE: true, MaxPts: 4, MaxDev: 1})
		emit("big", c04Case{Kind: "dc", Src: fmt.Sprintf("%dc7m6", pool), Pool: pool, Add: 7, Sides: 6, MaxPts: 4, MaxDev: 1})
	}
}

// faces for a die of `sides`: small dice enumerate every face, big ones a
// representative set.
func faceOf(c *choice.Ctx, sides int64) int64 {
	if sides <= 100 && !(c.MaxPts > 0 && sides > 10) {
		return int64(c.Choose(int(sides))) + 1
	}
	reps := []int64{1, 2, sides / 2, sides - 1, sides}
	return reps[c.Choose(len(reps))]
}

var reInts = regexp.MustCompile(`-?\d+`)

func atoiAll(s string) []int {
	var out []int
	for _, m := range reInts.FindAllString(s, -1) {
		n, _ := strconv.Atoi(m)
		out = append(out, n)
	}
	return out
}

func sameMultiset(a, b []int) bool {
	if len(a) != len(b) {
		return false
	}
	x := append([]int{}, a...)
	y := append([]int{}, b...)
	sort.Ints(x)
	sort.Ints(y)
	for i := range x {
		if x[i] != y[i] {
			return false
		}
	}
	return true
}

func sum(a []int) int {
	t := 0
	for _, v := range a {
		t += v
	}
	return t
}

// checkCommonText validates RollCommon's displayed dice against the faces.
func checkCommonText(text string, faces []int, mode, n int, min, max *int, total int) string {
	want, kept, _ := rules.Common(faces, mode, n, min, max)
	if want != total {
		return fmt.Sprintf("total %d but the rule gives %d for faces %v", total, want, faces)
	}
	clamped, _, _ := rules.Common(faces, 0, 0, min, max)
	_ = clamped
	all, _, _ := rules.Common(faces, 0, 0, min, max)
	_ = all
	var shown, shownKept []int
	if strings.HasPrefix(text, "{") {
		body := strings.TrimSuffix(strings.TrimPrefix(text, "{"), "}")
		parts := strings.Split(body, "|")
		if len(parts) != 2 {
			return fmt.Sprintf("displayed dice %q: expected one '|' separator", text)
		}
		shownKept = atoiAll(parts[0])
		shown = append(append([]int{}, shownKept...), atoiAll(parts[1])...)
	} else {
		shown = atoiAll(strings.ReplaceAll(text, "+-", "+ -"))
		shownKept = shown
	}
	var cl []int
	for _, f := range faces {
		if max != nil && f > *max {
			f = *max
		}
		if min != nil && f < *min {
			f = *min
		}
		cl = append(cl, f)
	}
	if !sameMultiset(shown, cl) {
		return fmt.Sprintf("displayed dice %q are not the dice rolled %v", text, cl)
	}
	if !sameMultiset(shownKept, kept) {
		return fmt.Sprintf("displayed kept dice %v but the rule keeps %v (text %q)", shownKept, kept, text)
	}
	if sum(shownKept) != total {
		return fmt.Sprintf("displayed kept dice sum %d != total %d", sum(shownKept), total)
	}
	return ""
}

var reRound = regexp.MustCompile(`\{([^}]*)\}`)

// parse "{<4>,2*,<10*>},{...}" -> rounds of (face, starred, bracketed)
type shownDie struct {
	face       int
	star, brkt bool
}

func parseRounds(text string) [][]shownDie {
	var out [][]shownDie
	for _, m := range reRound.FindAllStringSubmatch(text, -1) {
		var r []shownDie
		if strings.TrimSpace(m[1]) != "" {
			for _, tok := range strings.Split(m[1], ",") {
				d := shownDie{brkt: strings.Contains(tok, "<"), star: strings.Contains(tok, "*")}
				ns := atoiAll(tok)
				if len(ns) == 1 {
					d.face = ns[0]
				} else {
					d.face = -999
				}
				r = append(r, d)
			}
		}
		out = append(out, r)
	}
	return out
}

func c04Run(raw json.RawMessage) harn.Result {
	var c c04Case
	if err := json.Unmarshal(raw, &c); err != nil {
		panic(err)
	}
	res := harn.Result{Stats: map[string]int64{}, Nontrivial: true}
	viol := func(sig, what string) {
		if len(res.Violations) < 3 {
			res.Violations = append(res.Violations, harn.Violation{Signature: sig, What: fmt.Sprintf("%s: %s", c.Src, what)})
		}
	}
	if c.Kind == "pool-bound" {
		cfg := drv.AllOn()
		cfg.Max, cfg.Min, cfg.OpLimit = c.Bound == "max", c.Bound == "min", 400
		vm := drv.NewVM(cfg)
		var err error
		if site, p := harn.Guard(func() { err = vm.Run(c.Src) }); p {
			viol(site, "panic")
			return res
		}
		if err != nil {
			res.Outcome = "single"
			res.Sample = c.Src + " in " + c.Bound + " mode: error"
			return res
		}
		for _, sp := range vm.DetailSpans {
			text := sp.Text
			hdr := atoiAll(strings.SplitN(text, "{", 2)[0])
			if len(hdr) < 2 || !strings.Contains(text, "/") {
				continue
			}
			total, listed, stars := hdr[1], 0, 0
			for _, r := range parseRounds(text) {
				for _, d := range r {
					listed++
					if d.star {
						stars++
					}
				}
			}
			if strings.Contains(text, "{") && listed != total {
				viol("C04:pool-text", fmt.Sprintf("%s mode: the text %q counts %d dice and lists %d", c.Bound, trunc(text, 120), total, listed))
			}
			if strings.Contains(text, "{") && strings.Contains(text, "成功") && stars != hdr[0] {
				viol("C04:pool-text", fmt.Sprintf("%s mode: the text %q reports %d successes and marks %d dice", c.Bound, trunc(text, 120), hdr[0], stars))
			}
		}
		res.Outcome = "varied"
		res.Sample = c.Src + " in " + c.Bound + " mode: " + vm.Ret.ToString()
		return res
	}
	cfg := drv.AllOn()
	vm := drv.NewVM(cfg)
	if c.PrevDef != "" {
		vm.Config.DefaultDiceSideExpr = c.PrevDef
		if err := vm.Run("2d + d"); err != nil {
			panic(err)
		}
	}
	vm.Config.DefaultDiceSideExpr = c.Def
	var sidesSeen []int64
	var perr error
	if site, p := harn.Guard(func() { perr = vm.Parse(c.Src) }); p {
		viol(site, "panic in Parse")
		return res
	}
	if perr != nil {
		viol("C04:syntax-rejected", "generator produced a program the parser rejects: "+perr.Error())
		return res
	}
	var faces []int
	var cur *choice.Ctx
	ds.VerifStepHook = nil
	ds.VerifRollHook = func(src *rand.PCGSource, sides ds.IntType) (ds.IntType, bool) {
		var f int64
		if c.Script > 0 {
			f = 1
			if len(faces) < c.Script {
				f = int64(sides)
			}
		} else {
			f = faceOf(cur, int64(sides))
		}
		faces = append(faces, int(f))
		sidesSeen = append(sidesSeen, int64(sides))
		return ds.IntType(f), true
	}
	defer func() { ds.VerifRollHook = nil }()

	expectErr := false
	switch c.Kind {
	case "common":
		expectErr = c.X <= 0 || c.Y <= 0 || (c.Mode != 0 && c.N <= 0)
	case "chain", "pair":
		expectErr = false
	case "coc":
		expectErr = false // b0 = plain d100; negative counts: see below
	case "wod":
		expectErr = c.Pool < 1 || c.Pool > 20000 || (c.Add != 0 && c.Add < 2) || c.Sides < 1 || c.Thr < 1
	case "dc":
		expectErr = c.Pool < 1 || c.Pool > 20000 || c.Add < 2 || c.Sides < 1
	}
	outcomes := map[string]bool{}
	st := choice.Explore(c.MaxPts, func() int {
		if c.MaxPts == 0 {
			return -1
		}
		return c.MaxDev
	}(), func(cc *choice.Ctx) {
		cur = cc
		faces = faces[:0]
		sidesSeen = sidesSeen[:0]
		vm.VerifResetForRerun()
		var err error
		if site, p := harn.Guard(func() { err = vm.RunAfterParsed() }); p {
			viol(site, fmt.Sprintf("panic with faces %v", faces))
			return
		}
		if expectErr {
			if err == nil {
				viol("C04:illegal-accepted:"+c.Kind, fmt.Sprintf("illegal parameters produced the value %s instead of an error", vm.Ret.ToString()))
			}
			outcomes["error"] = true
			return
		}
		if err != nil {
			if c.Kind == "coc" && c.N < 0 {
				outcomes["error"] = true
				return // a negative count being rejected is fine
			}
			viol("C04:legal-rejected:"+c.Kind, fmt.Sprintf("legal parameters rejected: %v (faces %v)", err, faces))
			return
		}
		if cc.Forced {
			res.Stats["runs_truncated"]++
		}
		if c.Kind == "common" {
			for i, sd := range sidesSeen {
				if i < c.Extra {
					continue // dice of the nested rolls (checked below)
				}
				if sd != int64(c.Y) {
					viol("C04:sides", fmt.Sprintf("a die of this term was rolled with %d sides, the term has %d (DefaultDiceSideExpr %q, earlier %q)", sd, c.Y, c.Def, c.PrevDef))
					break
				}
			}
		}
		if vm.RestInput != "" {
			viol("MACHINERY:generator", fmt.Sprintf("generated term is not consumed entirely: rest %q", vm.RestInput))
			return
		}
		got, ok := vm.Ret.ReadInt()
		if !ok {
			viol("C04:non-int:"+c.Kind, "result is not an integer: "+vm.Ret.ToString())
			return
		}
		outcomes[strconv.Itoa(int(got))] = true
		spans := vm.DetailSpans
		text := ""
		if len(spans) > 0 {
			last := spans[len(spans)-1]
			// the outermost dice span carries the final value
			for _, sp := range spans {
				if sp.Ret != nil && (sp.End > last.End || (sp.End == last.End && sp.Begin < last.Begin)) {
					last = sp
				}
			}
			text = last.Text
			if last.Ret != nil && c.Kind != "pair" {
				if v, ok := last.Ret.ReadInt(); !ok || v != got {
					viol("C04:span-ret:"+c.Kind, fmt.Sprintf("detail span value %s differs from the result %d", last.Ret.ToString(), got))
				}
			}
		}
		f := append([]int{}, faces...)
		if c.Extra > 0 {
			if len(f) < c.Extra {
				viol("C04:dice-count:common", fmt.Sprintf("%d dice rolled, the nested rolls alone need %d", len(f), c.Extra))
				return
			}
			for i := 0; i < c.Extra; i++ {
				if sidesSeen[i] != 1 {
					viol("C04:sides", fmt.Sprintf("nested die #%d rolled with %d sides, it has 1", i+1, sidesSeen[i]))
					return
				}
			}
			f = f[c.Extra:]
			sidesSeen = sidesSeen[c.Extra:]
		}
		switch c.Kind {
		case "common":
			if len(f) != c.X {
				viol("C04:dice-count:common", fmt.Sprintf("%d dice rolled, expected %d", len(f), c.X))
				return
			}
			for _, x := range f {
				if x < 1 || x > c.Y {
					// the explorer offers exactly the faces the VM asks for: the VM asked for a die with other sides than the term's
					viol("C04:sides", fmt.Sprintf("face %d was drawn for a die that has %d sides (sides asked for: %v)", x, c.Y, sidesSeen))
					return
				}
			}
			if c.X <= 100 || c.Mode != 0 {
				if msg := checkCommonText(text, f, c.Mode, c.N, c.Min, c.Max, int(got)); msg != "" {
					viol("C04:common", msg)
				}
			} else if w, _, _ := rules.Common(f, c.Mode, c.N, c.Min, c.Max); w != int(got) {
				viol("C04:common", fmt.Sprintf("total %d but the rule gives %d", got, w))
			}
		case "pair":
			if len(f) != c.X+c.Second.X {
				viol("C04:dice-count:pair", fmt.Sprintf("%d dice rolled, expected %d", len(f), c.X+c.Second.X))
				return
			}
			v1, _, _ := rules.Common(f[:c.X], c.Mode, c.N, c.Min, c.Max)
			v2, _, _ := rules.Common(f[c.X:], c.Second.Mode, c.Second.N, c.Second.Min, c.Second.Max)
			want := v1 + v2
			if c.Thr != 3 {
				want = v1*100 + v2
			}
			if want != int(got) {
				viol("C04:pair", fmt.Sprintf("faces %v: %s gives %d and %s gives %d by the rules, total %d, got %d (state of one term leaking into the other?)", f, c.Src[:len(c.Src)-len(c.Second.Src)], v1, c.Second.Src, v2, want, got))
				return
			}
			if len(spans) == 2 {
				for i, sp := range spans {
					ff, t := f[:c.X], c
					if i == 1 {
						ff, t = f[c.X:], *c.Second
					}
					tv, _, _ := rules.Common(ff, t.Mode, t.N, t.Min, t.Max)
					if msg := checkCommonText(sp.Text, ff, t.Mode, t.N, t.Min, t.Max, tv); msg != "" && !(sp.Text == "" ) {
						viol("C04:pair-text", fmt.Sprintf("term %d: %s", i+1, msg))
					}
				}
			}
		case "chain":
			if len(f) < c.X {
				viol("C04:dice-count:chain", "too few dice")
				return
			}
			first := sum(f[:c.X])
			if len(f) != c.X+first {
				viol("C04:dice-count:chain", fmt.Sprintf("%dd%d gave %d so %d more dice are due, %d were rolled", c.X, c.Y, first, first, len(f)-c.X))
				return
			}
			if sum(f[c.X:]) != int(got) {
				viol("C04:chain", fmt.Sprintf("total %d but the second roll sums to %d", got, sum(f[c.X:])))
			}
		case "fate":
			if len(f) != 4 {
				viol("C04:dice-count:fate", fmt.Sprintf("%d dice", len(f)))
				return
			}
			if rules.Fate(f) != int(got) {
				viol("C04:fate", fmt.Sprintf("faces %v give %d, got %d", f, rules.Fate(f), got))
			}
			want := ""
			for _, x := range f {
				want += string("-0+"[x-1])
			}
			if text != want {
				viol("C04:fate-text", fmt.Sprintf("shown %q, rolled %q", text, want))
			}
		case "coc":
			n := c.N
			if n < 0 {
				n = 0
			}
			if len(f) != 1+n {
				viol("C04:dice-count:coc", fmt.Sprintf("%d dice rolled, expected %d", len(f), 1+n))
				return
			}
			want := rules.CoC(f[0], f[1:], c.Bonus)
			if want != int(got) {
				viol("C04:coc", fmt.Sprintf("D100=%d extra=%v bonus=%v: rule gives %d, got %d", f[0], f[1:], c.Bonus, want, got))
			}
			if got < 1 || got > 100 {
				viol("C04:coc-range", fmt.Sprintf("result %d outside 1..100", got))
			}
			ns := atoiAll(strings.Replace(text, "D100", "D", 1))
			var exp []int
			exp = append(exp, f[0])
			for _, e := range f[1:] {
				exp = append(exp, e%10)
			}
			if !equalInts(ns, exp) {
				viol("C04:coc-text", fmt.Sprintf("shown %q, rolled %v", text, exp))
			}
		case "wod", "dc":
			var want, total, rounds, used int
			var ok bool
			if c.Kind == "wod" {
				want, total, rounds, used, ok = rules.WoD(f, c.Pool, c.Add, c.Thr, c.GE)
			} else {
				want, total, rounds, used, ok = rules.DoubleCross(f, c.Pool, c.Add)
			}
			if !ok || used != len(f) {
				viol("C04:dice-count:"+c.Kind, fmt.Sprintf("rule consumes %d dice (complete=%v) but %d were rolled: %v", used, ok, len(f), trimInts(f)))
				return
			}
			if want != int(got) {
				viol("C04:"+c.Kind, fmt.Sprintf("faces %v: rule gives %d, got %d", trimInts(f), want, got))
			}
			hdr := atoiAll(strings.SplitN(text, "{", 2)[0])
			if len(hdr) < 2 || hdr[0] != int(got) || hdr[1] != total {
				viol("C04:"+c.Kind+"-text", fmt.Sprintf("header of %q does not say %d/%d", trunc(text, 80), got, total))
			}
			if rounds > 1 && (len(hdr) < 3 || hdr[2] != rounds) {
				viol("C04:"+c.Kind+"-text", fmt.Sprintf("rounds in %q, expected %d", trunc(text, 80), rounds))
			}
			if c.Pool < 15 && total <= 100 {
				rs := parseRounds(text)
				k := 0
				pool := c.Pool
				for ri := 0; ri < rounds; ri++ {
					if ri >= len(rs) || len(rs[ri]) != pool {
						viol("C04:"+c.Kind+"-text", fmt.Sprintf("round %d of %q should show %d dice", ri+1, trunc(text, 80), pool))
						return
					}
					next := 0
					for _, d := range rs[ri] {
						face := f[k]
						k++
						expBr := face >= c.Add && (c.Kind == "dc" || c.Add != 0)
						expStar := c.Kind == "wod" && ((c.GE && face >= c.Thr) || (!c.GE && face <= c.Thr))
						if d.face != face || d.brkt != expBr || d.star != expStar {
							viol("C04:"+c.Kind+"-text", fmt.Sprintf("die %d shown as %+v in %q, rolled %d", k, d, trunc(text, 80), face))
							return
						}
						if expBr {
							next++
						}
					}
					pool = next
				}
			} else if strings.Contains(text, "{") {
				viol("C04:"+c.Kind+"-text", fmt.Sprintf("%d dice from a pool of %d: beyond the listing limits (pool < 15, <= 100 dice) no dice may be listed at all, got %q", total, c.Pool, trunc(text, 120)))
			}
		}
	})
	res.Stats["executions"] = st.Runs
	res.Stats["max_choice_points"] = int64(st.MaxPoints)
	if st.Diverged > 0 {
		viol("MACHINERY:replay-diverged", "choice replay diverged")
	}
	if len(outcomes) > 1 {
		res.Outcome = "varied"
	} else {
		res.Outcome = "single"
	}
	res.Sample = fmt.Sprintf("%s: %d face sequences, %d distinct results", c.Src, st.Runs, len(outcomes))

	// exported function path: same faces must give the same totals (legal tuples only)
	if !expectErr && len(res.Violations) == 0 {
		c04FuncPath(c, &res, viol)
	}
	return res
}

func equalInts(a, b []int) bool {
	if len(a) != len(b) {
		return false
	}
	for i := range a {
		if a[i] != b[i] {
			return false
		}
	}
	return true
}

func trimInts(a []int) []int {
	if len(a) > 24 {
		return a[:24]
	}
	return a
}

func trunc(s string, n int) string {
	if len(s) > n {
		return s[:n] + "…"
	}
	return s
}

// c04FuncPath drives the exported Roll* functions over the same face space.
func c04FuncPath(c c04Case, res *harn.Result, viol func(sig, what string)) {
	if c.Kind == "chain" || c.Kind == "pair" || (c.Kind == "coc" && c.N < 0) || c.Extra > 0 {
		return
	}
	var faces []int
	var cur *choice.Ctx
	ds.VerifRollHook = func(src *rand.PCGSource, sides ds.IntType) (ds.IntType, bool) {
		var f int64
		if c.Script > 0 {
			f = 1
			if len(faces) < c.Script {
				f = int64(sides)
			}
		} else {
			f = faceOf(cur, int64(sides))
		}
		faces = append(faces, int(f))
		return ds.IntType(f), true
	}
	src := &rand.PCGSource{}
	dev := c.MaxDev
	if c.MaxPts == 0 {
		dev = -1
	}
	toI := func(p *int) *ds.IntType {
		if p == nil {
			return nil
		}
		v := ds.IntType(*p)
		return &v
	}
	st := choice.Explore(c.MaxPts, dev, func(cc *choice.Ctx) {
		cur = cc
		faces = faces[:0]
		var got int
		var text string
		site, p := harn.Guard(func() {
			switch c.Kind {
			case "common":
				low, high := ds.IntType(0), ds.IntType(0)
				if c.Mode == 1 || c.Mode == 3 {
					low = ds.IntType(c.N)
				} else {
					high = ds.IntType(c.N)
				}
				v, t := ds.RollCommon(src, ds.IntType(c.X), ds.IntType(c.Y), toI(c.Min), toI(c.Max), ds.IntType(c.Mode), low, high, 0)
				got, text = int(v), t
			case "fate":
				v, t := ds.RollFate(src, 0)
				got, text = int(v), t
			case "coc":
				v, t := ds.RollCoC(src, c.Bonus, ds.IntType(c.N), 0)
				got, text = int(v), t
			case "wod":
				v, _, _, t := ds.RollWoD(src, ds.IntType(c.Add), ds.IntType(c.Pool), ds.IntType(c.Sides), ds.IntType(c.Thr), c.GE, 0)
				got, text = int(v), t
			case "dc":
				v, _, _, t := ds.RollDoubleCross(src, ds.IntType(c.Add), ds.IntType(c.Pool), ds.IntType(c.Sides), 0)
				got, text = int(v), t
			}
		})
		if p {
			viol(site, fmt.Sprintf("panic in exported Roll function with faces %v", trimInts(faces)))
			return
		}
		f := faces
		want := 0
		switch c.Kind {
		case "common":
			want, _, _ = rules.Common(f, c.Mode, c.N, c.Min, c.Max)
		case "fate":
			want = rules.Fate(f)
		case "coc":
			want = rules.CoC(f[0], f[1:], c.Bonus)
		case "wod":
			want, _, _, _, _ = rules.WoD(f, c.Pool, c.Add, c.Thr, c.GE)
		case "dc":
			want, _, _, _, _ = rules.DoubleCross(f, c.Pool, c.Add)
		}
		if want != got {
			viol("C04:func:"+c.Kind, fmt.Sprintf("exported Roll function: faces %v: rule gives %d, got %d", trimInts(f), want, got))
		}
		if (c.Kind == "wod" || c.Kind == "dc") && (c.Pool >= 15 || len(f) > 100) && strings.Contains(text, "{") {
			viol("C04:func:"+c.Kind+"-text", fmt.Sprintf("exported Roll function: %d dice from a pool of %d: beyond the listing limits no dice may be listed, got %q", len(f), c.Pool, trunc(text, 120)))
		}
	})
	res.Stats["executions_func_path"] = st.Runs
	ds.VerifRollHook = nil
}

func init() {
	harn.Register(&harn.Check{
		ID:   "C04",
		Rule: "each case is one dice term (parameter tuple + spelling); for it EVERY sequence of die faces is enumerated through the VerifRoll seam by choice-prefix DFS (large pools: default face 1 with a bounded number of deviations among the first MaxPts dice, reported as runs_truncated) on the VM syntax and on the exported Roll* function; further strata: faceless dice (sides from DefaultDiceSideExpr, also after another setting was used on the VM), pairs of terms in one expression, rolls nested inside the term's own sides / modifier arguments (dice of one side), scripted long explosions around the 100-dice listing cut-off; oracle = independent rule functions (package rules) on the faces drawn + parser of the displayed dice; illegal tuples must error. A case is non-trivial by construction (it rolls or must be rejected); distinct by source text.",
		Assume: []string{
			"die faces are answered by the harness through VerifRoll; the generator arithmetic itself is C05's subject",
			"min > max clamps follow the implementation order (max first, then min); docs do not define it",
		},
		Enumerate: c04Enumerate,
		Run:       c04Run,
		Budget:    map[string]time.Duration{"quick": 400 * time.Second, "thorough": 30 * time.Minute},
	})
}
