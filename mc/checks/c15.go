package checks

import (
	"strings"
	"bytes"
	"encoding/json"
	"fmt"
	"time"

	ds "github.com/sealdice/dicescript"
	"golang.org/x/exp/rand"
	"verifmc/choice"
	"verifmc/drv"
	"verifmc/harn"
	"verifmc/rules"
)

// C15 — min-mode and max-mode bracket every roll. For each expression the set
// of ALL random outcomes is enumerated (choice DFS over VerifRoll) and compared
// with the two mode results.

type c15Case struct {
	Src string
	// when the expression is a single plain XdY term, its parameters (bounds must be attained)
	Plain bool
	X, Y  int
	Mode  int
	N     int
	Min   *int `json:",omitempty"`
	Max   *int `json:",omitempty"`
	Def   string `json:",omitempty"` // DefaultDiceSideExpr (faceless dice)
	Pre   string `json:",omitempty"` // statements run once on the VM before (definitions the expression uses)
}

func c15Terms(maxX, maxY int, emit func(c c15Case)) {
	for x := 1; x <= maxX; x++ {
		for y := 1; y <= maxY; y++ {
			for mode := 0; mode <= 4; mode++ {
				ns := []int{0}
				if mode != 0 {
					ns = nil
					for n := 1; n <= x+1; n++ {
						ns = append(ns, n)
					}
				}
				for _, n := range ns {
					type mm struct{ min, max *int }
					mms := []mm{{nil, nil}}
					for m := 0; m <= y+1; m++ {
						mms = append(mms, mm{ip(m), nil}, mm{nil, ip(m)})
					}
					for _, m := range mms {
						src := fmt.Sprintf("%dd%d", x, y)
						if mode != 0 {
							src += modeNames[mode][0] + numTxt(n)
						}
						if m.min != nil {
							src += "min" + numTxt(*m.min)
						}
						if m.max != nil {
							src += "max" + numTxt(*m.max)
						}
						emit(c15Case{Src: src, Plain: true, X: x, Y: y, Mode: mode, N: n, Min: m.min, Max: m.max})
					}
				}
			}
		}
	}
}

func c15Enumerate(tier string, seed int64, emit func(string, any)) {
	thorough := tier == "thorough"
	maxX, maxY := 3, 4
	if thorough {
		maxX, maxY = 4, 5
	}
	c15Terms(maxX, maxY, func(c c15Case) { emit("plain", c) })
	special := []string{"f", "b", "p", "b0", "p0", "b1", "p1", "b2", "p2", "d4优势", "d4劣势", "d3", "2d2d2", "(2d2)d3", "1d2d3"}
	if thorough {
		special = append(special, "b3", "p3")
	}
	for _, s := range special {
		emit("special", c15Case{Src: s})
	}
	// compositions with non-negative constants (monotone by construction)
	var small []string
	c15Terms(2, 3, func(c c15Case) {
		if c.Min == nil && c.Max == nil || (c.Min != nil && *c.Min == 2) || (c.Max != nil && *c.Max == 2) {
			small = append(small, c.Src)
		}
	})
	small = append(small, "f", "d3优势")
	consts := []string{"0", "1", "3"}
	for _, t := range small {
		for _, k := range consts {
			emit("compose", c15Case{Src: t + " + " + k})
			emit("compose", c15Case{Src: k + " + " + t})
			emit("compose", c15Case{Src: t + " * " + k})
			emit("compose", c15Case{Src: k + " * " + t})
			emit("compose", c15Case{Src: "(" + t + " + 1) * " + k})
		}
	}
	for i, t1 := range small {
		for j, t2 := range small {
			if !thorough && (i+j)%3 != 0 {
				continue
			}
			emit("compose", c15Case{Src: t1 + " + " + t2})
			emit("compose", c15Case{Src: t1 + " * 3 + " + t2})
		}
	}
	// the same dice inside every kind of sub-evaluation (each has its own VM configuration copy), defined in the same
	// source or earlier on the VM (precompiled body), and faceless dice whose sides come from DefaultDiceSideExpr
	for _, t := range []string{"2d3", "2d3k1", "3d2q2", "d4", "f", "b", "p1", "2d3min2"} {
		for _, w := range []string{"&a = @; a", "&a = @; a + a", "func g(){ @ }; g()", "func g(){ @ }; g() + g()", "func g(n){ n + @ }; g(1)", "[@, @].sum()", "[@, 1] kh", "1 ? @ : 0", "x = @; x + x", "i = 0; s = 0; while i < 2 { i = i + 1; s = s + @ }; s", "{'k': @}.k"} {
			if (t == "b" || t == "p1") && (strings.Count(w, "@") > 1 || strings.Contains(w, "a + a") || strings.Contains(w, "g() + g()") || strings.Contains(w, "x + x") || strings.Contains(w, "while")) {
				continue // a D100 has 100 faces: one evaluation per case
			}
			emit("contexts", c15Case{Src: strings.ReplaceAll(w, "@", t)})
		}
		if t == "b" || t == "p1" {
			emit("contexts", c15Case{Pre: "&pa = " + t, Src: "pa + 1"})
			emit("contexts", c15Case{Pre: "func pg(){ " + t + " }", Src: "pg() + 1"})
			continue
		}
		emit("contexts", c15Case{Pre: "&pa = " + t, Src: "pa + pa"})
		emit("contexts", c15Case{Pre: "func pg(){ " + t + " }", Src: "pg() + pg()"})
		emit("contexts", c15Case{Pre: "&pa = " + t + "; func pg(){ pa + 1 }", Src: "pg()"})
	}
	for _, t := range []string{"2d", "d", "3dk2", "2dq1", "2ddl1", "2dmin2", "2dmax2", "d + 2d", "func g(){ 2d }; g()", "&a = 2d; a + a"} {
		for _, def := range []string{"3", "1+2", "4", "2d2+1", "d3"} { // (the last two: the number of sides is itself rolled, so it is part of the formula)
			emit("faceless", c15Case{Src: t, Def: def})
		}
	}
	// numbers of sides far beyond what can be enumerated: the faces 1, 2, Y-1, Y stand for all
	for _, y := range []string{"101", "1000", "65536", "2147483646", "2147483647", "2147483648", "3000000000", "4294967296", "1099511627776", "4611686018427387904", "9223372036854775806"} {
		for _, t := range []string{"d@", "2d@", "2d@k1", "2d@q1", "3d@dl1", "d@ + 1", "d@优势"} {
			if len(y) > 13 && (strings.HasPrefix(t, "2d@") && len(t) == 3 || strings.HasPrefix(t, "3d")) {
				continue // the sum of several such dice does not fit the integer type; wrap-around is not this property's subject
			}
			emit("big sides", c15Case{Src: strings.ReplaceAll(t, "@", y)})
		}
	}
	for _, t := range []string{"b", "p", "b1", "p2", "b2"} {
		emit("compose", c15Case{Src: t + " + 1"})
		emit("compose", c15Case{Src: t + " * 3"})
		emit("compose", c15Case{Src: t + " + 1d2"})
		emit("compose", c15Case{Src: "f + " + t})
	}
}

func c15Run(raw json.RawMessage) harn.Result {
	var c c15Case
	if err := json.Unmarshal(raw, &c); err != nil {
		panic(err)
	}
	res := harn.Result{Stats: map[string]int64{}, Nontrivial: true}
	viol := func(sig, what string) {
		if len(res.Violations) < 3 {
			res.Violations = append(res.Violations, harn.Violation{Signature: sig, What: fmt.Sprintf("%s: %s", c.Src, what)})
		}
	}
	// all random outcomes
	base := drv.AllOn()
	base.DefExpr = c.Def
	var cur *choice.Ctx
	ds.VerifStepHook = nil
	ds.VerifRollHook = func(src *rand.PCGSource, sides ds.IntType) (ds.IntType, bool) {
		if cur == nil {
			return 1, true
		}
		if sides > 100 { // up to D100 (CoC) every face is enumerated
			reps := []ds.IntType{1, 2, sides - 1, sides}
			return reps[cur.Choose(4)], true
		}
		return ds.IntType(cur.Choose(int(sides)) + 1), true
	}
	vm := drv.NewVM(base)
	if c.Pre != "" {
		if err := vm.Run(c.Pre); err != nil {
			panic(err)
		}
	}
	if err := vm.Parse(c.Src); err != nil {
		viol("MACHINERY:generator", "rejected: "+err.Error())
		return res
	}
	outcomes := map[int]bool{}
	lo, hi := 0, 0
	first := true
	st := choice.Explore(0, -1, func(cc *choice.Ctx) {
		cur = cc
		vm.VerifResetForRerun()
		if err := vm.RunAfterParsed(); err != nil {
			viol("C15:random-run-error", err.Error())
			return
		}
		if vm.RestInput != "" {
			viol("MACHINERY:generator", "rest "+vm.RestInput)
			return
		}
		v, ok := vm.Ret.ReadInt()
		if !ok {
			viol("C15:non-int", vm.Ret.ToString())
			return
		}
		outcomes[int(v)] = true
		if first || int(v) < lo {
			lo = int(v)
		}
		if first || int(v) > hi {
			hi = int(v)
		}
		first = false
	})
	res.Stats["executions"] = st.Runs
	if len(res.Violations) > 0 {
		return res
	}
	// the two modes: must consume no randomness
	rolls := 0
	ds.VerifRollHook = func(src *rand.PCGSource, sides ds.IntType) (ds.IntType, bool) {
		rolls++
		return 0, false
	}
	defer func() { ds.VerifRollHook = nil }()
	mode := func(min bool) (int, bool) {
		cfg := base
		cfg.Min, cfg.Max = min, !min
		cfg.Seed = 7
		m := drv.NewVM(cfg)
		if c.Pre != "" {
			if err := m.Run(c.Pre); err != nil {
				panic(err)
			}
		}
		before, _ := m.GetCurSeed()
		rolls = 0
		if err := m.Run(c.Src); err != nil {
			viol("C15:mode-run-error", fmt.Sprintf("min=%v: %v", min, err))
			return 0, false
		}
		after, _ := m.GetCurSeed()
		if rolls != 0 || !bytes.Equal(before, after) {
			viol("C15:mode-consumes-randomness", fmt.Sprintf("min=%v: %d random draws, generator state changed=%v", min, rolls, !bytes.Equal(before, after)))
		}
		v, ok := m.Ret.ReadInt()
		if !ok {
			viol("C15:non-int", m.Ret.ToString())
			return 0, false
		}
		return int(v), true
	}
	mn, ok1 := mode(true)
	mx, ok2 := mode(false)
	if !ok1 || !ok2 {
		return res
	}
	// the same on a VM that was never given a seed (it shares the process-wide generator): the bounds are the same and the
	// shared generator is left alone
	for _, min := range []bool{true, false} {
		cfg := base
		cfg.Min, cfg.Max = min, !min
		m := drv.NewVM(cfg)
		if c.Pre != "" {
			if err := m.Run(c.Pre); err != nil {
				panic(err)
			}
		}
		before, _ := m.GetCurSeed()
		rolls = 0
		if err := m.Run(c.Src); err != nil {
			viol("C15:mode-run-error", fmt.Sprintf("unseeded VM, min=%v: %v", min, err))
			continue
		}
		after, _ := m.GetCurSeed()
		if rolls != 0 || !bytes.Equal(before, after) {
			viol("C15:mode-consumes-randomness", fmt.Sprintf("unseeded VM, min=%v: %d random draws, shared generator state changed=%v", min, rolls, !bytes.Equal(before, after)))
		}
		if v, ok := m.Ret.ReadInt(); !ok || (min && int(v) != mn) || (!min && int(v) != mx) {
			viol("C15:mode-depends-on-seeding", fmt.Sprintf("unseeded VM, min=%v gives %s; the seeded VM gave %d / %d", min, m.Ret.ToString(), mn, mx))
		}
	}
	// the two-step form: Parse, THEN choose the mode, then RunAfterParsed (the mode in force when the program runs decides)
	for _, min := range []bool{true, false} {
		cfg := base
		cfg.Seed = 11
		m := drv.NewVM(cfg)
		if c.Pre != "" {
			if err := m.Run(c.Pre); err != nil {
				panic(err)
			}
		}
		if err := m.Parse(c.Src); err != nil {
			break
		}
		m.Config.DiceMinMode, m.Config.DiceMaxMode = min, !min
		before, _ := m.GetCurSeed()
		rolls = 0
		if err := m.RunAfterParsed(); err != nil {
			viol("C15:mode-run-error", fmt.Sprintf("Parse, then min=%v, then RunAfterParsed: %v", min, err))
			continue
		}
		after, _ := m.GetCurSeed()
		v, ok := m.Ret.ReadInt()
		if !ok || (min && int(v) != mn) || (!min && int(v) != mx) || rolls != 0 || !bytes.Equal(before, after) {
			viol("C15:mode-set-between-parse-and-run", fmt.Sprintf("Parse, then min=%v, then RunAfterParsed: result %s, %d draws, generator moved=%v; Run under that mode gives min %d / max %d", min, m.Ret.ToString(), rolls, !bytes.Equal(before, after), mn, mx))
		}
	}
	// ONE VM whose mode is switched between evaluations (random -> min -> max -> min): every evaluation obeys the mode in
	// force, whatever the VM did before
	{
		cfg := base
		cfg.Seed = 9
		m := drv.NewVM(cfg)
		if c.Pre != "" {
			if err := m.Run(c.Pre); err != nil {
				panic(err)
			}
		}
		ds.VerifRollHook = nil // a real random evaluation first
		_ = m.Run(c.Src)
		ds.VerifRollHook = func(src *rand.PCGSource, sides ds.IntType) (ds.IntType, bool) {
			rolls++
			return 0, false
		}
		for step, min := range []bool{true, false, true} {
			m.Config.DiceMinMode, m.Config.DiceMaxMode = min, !min
			before, _ := m.GetCurSeed()
			rolls = 0
			if err := m.Run(c.Src); err != nil {
				viol("C15:mode-run-error", fmt.Sprintf("switched VM step %d: %v", step, err))
				break
			}
			after, _ := m.GetCurSeed()
			v, ok := m.Ret.ReadInt()
			if !ok || (min && int(v) != mn) || (!min && int(v) != mx) || rolls != 0 || !bytes.Equal(before, after) {
				viol("C15:mode-switch-on-a-used-vm", fmt.Sprintf("after a random evaluation the VM was switched (step %d) to min=%v: result %s, %d draws, generator moved=%v; a fresh VM gives min %d / max %d", step, min, m.Ret.ToString(), rolls, !bytes.Equal(before, after), mn, mx))
				break
			}
		}
	}
	if mn > lo {
		viol("C15:min-not-lower-bound", fmt.Sprintf("min-mode gives %d but a random roll can give %d (all outcomes %d..%d)", mn, lo, lo, hi))
	}
	if mx < hi {
		viol("C15:max-not-upper-bound", fmt.Sprintf("max-mode gives %d but a random roll can give %d (all outcomes %d..%d)", mx, hi, lo, hi))
	}
	if c.Plain {
		ones := make([]int, c.X)
		tops := make([]int, c.X)
		for i := range ones {
			ones[i], tops[i] = 1, c.Y
		}
		wmin, _, _ := rules.Common(ones, c.Mode, c.N, c.Min, c.Max)
		wmax, _, _ := rules.Common(tops, c.Mode, c.N, c.Min, c.Max)
		if mn != wmin || !outcomes[mn] {
			viol("C15:min-not-attained", fmt.Sprintf("min-mode gives %d; every die at 1 gives %d; attained by a random roll: %v", mn, wmin, outcomes[mn]))
		}
		if mx != wmax || !outcomes[mx] {
			viol("C15:max-not-attained", fmt.Sprintf("max-mode gives %d; every die at %d gives %d; attained: %v", mx, c.Y, wmax, outcomes[mx]))
		}
	}
	if len(outcomes) > 1 {
		res.Outcome = "varied"
	} else {
		res.Outcome = "single"
	}
	res.Sample = fmt.Sprintf("%s: %d face sequences, outcomes %d..%d, min-mode %d, max-mode %d", c.Src, st.Runs, lo, hi, mn, mx)
	return res
}

func init() {
	harn.Register(&harn.Check{
		ID:   "C15",
		Rule: "each case is one expression (plain XdY term with modifiers, Fate, CoC, advantage, chain, or a sum/product with non-negative constants); the set of ALL its random outcomes is enumerated through VerifRoll by choice-prefix DFS and compared with the min-mode and max-mode results (which must draw nothing and leave the generator state unchanged); plain terms must attain their bounds. Distinct by source text; every case rolls dice, so all are non-trivial.",
		Assume: []string{"WoD / Double Cross pools are outside the property's quantifier (their <= thresholds are not monotone)"},
		Enumerate: c15Enumerate,
		Run:       c15Run,
		Budget:    map[string]time.Duration{"quick": 400 * time.Second, "thorough": 30 * time.Minute},
	})
}
