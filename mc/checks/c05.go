package checks

import (
	"strings"
	"encoding/binary"
	"encoding/json"
	"fmt"
	"math"
	"math/big"
	"math/bits"
	"time"

	ds "github.com/sealdice/dicescript"
	"golang.org/x/exp/rand"
	"verifmc/drv"
	"verifmc/harn"
)

// C05 — dice are unbiased for every number of sides. What is decided is the
// arithmetic from generator words to faces: every 32-bit word is pushed through
// the real _roll32 (complete enumeration), the 64-bit path is compared with an
// independent re-implementation on stated word windows, and whole seeded VM
// rolls are compared with an independent PCG + rejection-sampling reference.

type c05Case struct {
	Kind   string // w32 | w64 | stream | ref16
	N      int64
	Lo, Hi uint64 `json:",omitempty"`
	Seed   int64  `json:",omitempty"`
	Expr   int    `json:",omitempty"` // stream-expr: index into c05Exprs
}

// several dice in ONE evaluation: every die is a fresh draw of its own, whatever the dice before it were told to do.
// A term is (min, max) with 0 = absent; the value of the program is the sum of the clamped faces.
var c05Exprs = []struct {
	tmpl  string // %[1]d = N
	terms [][2]int64
}{
	{"d%[1]dmin%[1]d + d%[1]d", [][2]int64{{-1, 0}, {0, 0}}}, // -1 = N
	{"d%[1]dmax1 + d%[1]d", [][2]int64{{0, 1}, {0, 0}}},
	{"d%[1]d + d%[1]dmin%[1]d + d%[1]d", [][2]int64{{0, 0}, {-1, 0}, {0, 0}}},
	{"x = d%[1]dmax1; x + d%[1]d", [][2]int64{{0, 1}, {0, 0}}},
	{"x = d%[1]dmin%[1]d; y = d%[1]d; x + y", [][2]int64{{-1, 0}, {0, 0}}},
	{"i = 0; s = 0; while i < 3 { if i == 0 { s = s + d%[1]dmax1 } else { s = s + d%[1]d }; i = i + 1 }; s", [][2]int64{{0, 1}, {0, 0}, {0, 0}}},
	{"d%[1]dmin2 + d%[1]dmax2 + d%[1]d", [][2]int64{{2, 0}, {0, 2}, {0, 0}}},
	{"[d%[1]dmin%[1]d, d%[1]d, d%[1]d].sum()", [][2]int64{{-1, 0}, {0, 0}, {0, 0}}},
	{"func g(){ d%[1]dmax1 + d%[1]d }; g() + d%[1]d", [][2]int64{{0, 1}, {0, 0}, {0, 0}}},
	// dice inside a computed value, a template, a container, a nested function: all drawn from the context's own generator, in order
	{"&c = d%[1]d; c + d%[1]d", [][2]int64{{0, 0}, {0, 0}}},
	{"&c = d%[1]d + d%[1]d; d%[1]d + c", [][2]int64{{0, 0}, {0, 0}, {0, 0}}},
	{"&c = d%[1]d; func g(){ c + d%[1]d }; g() + c", [][2]int64{{0, 0}, {0, 0}, {0, 0}}},
	{"x = {'k': d%[1]d}; x.k + [d%[1]d, 0][0]", [][2]int64{{0, 0}, {0, 0}}},
}

// ---- independent PCG (128-bit LCG, XSL-RR output), written from the PCG paper / x/exp/rand constants

type u128 struct{ hi, lo uint64 }

var pcgMul = u128{0x2360ED051FC65DA4, 0x4385DF649FCCF645}
var pcgInc = u128{0x5851F42D4C957F2D, 0x14057B7EF767814F}
var pcgMulInv u128

func init() {
	m := new(big.Int).Lsh(big.NewInt(1), 128)
	mul := new(big.Int).SetUint64(pcgMul.hi)
	mul.Lsh(mul, 64).Add(mul, new(big.Int).SetUint64(pcgMul.lo))
	inv := new(big.Int).ModInverse(mul, m)
	lo := new(big.Int).And(inv, new(big.Int).SetUint64(math.MaxUint64)).Uint64()
	hi := new(big.Int).Rsh(inv, 64).Uint64()
	pcgMulInv = u128{hi, lo}
}

func mul128(a, b u128) u128 {
	hi, lo := bits.Mul64(a.lo, b.lo)
	hi += a.hi*b.lo + a.lo*b.hi
	return u128{hi, lo}
}
func add128(a, b u128) u128 {
	lo, c := bits.Add64(a.lo, b.lo, 0)
	hi, _ := bits.Add64(a.hi, b.hi, c)
	return u128{hi, lo}
}
func sub128(a, b u128) u128 {
	lo, br := bits.Sub64(a.lo, b.lo, 0)
	hi, _ := bits.Sub64(a.hi, b.hi, br)
	return u128{hi, lo}
}
func pcgStep(s u128) u128   { return add128(mul128(s, pcgMul), pcgInc) }
func pcgOut(s u128) uint64  { return bits.RotateLeft64(s.hi^s.lo, -int(s.hi>>58)) }
func pcgBefore(s u128) u128 { return mul128(sub128(s, pcgInc), pcgMulInv) }

// refRoll64: first word below the largest multiple of n, mod n, plus 1 (powers of two: mask).
func refRoll64(st *u128, n uint64) uint64 {
	*st = pcgStep(*st)
	v := pcgOut(*st)
	if n&(n-1) == 0 {
		return v&(n-1) + 1
	}
	ceiling := math.MaxUint64 - math.MaxUint64%n
	for v >= ceiling {
		*st = pcgStep(*st)
		v = pcgOut(*st)
	}
	return v%n + 1
}

func setState(src *rand.PCGSource, s u128, buf []byte) {
	binary.BigEndian.PutUint64(buf[:8], s.hi)
	binary.BigEndian.PutUint64(buf[8:], s.lo)
	_ = src.UnmarshalBinary(buf)
}

var c05N32 = []int64{2, 3, 6, 7, 10, 20, 100, 2147483646}

func c05Enumerate(tier string, seed int64, emit func(string, any)) {
	thorough := tier == "thorough"
	ns := append([]int64{}, c05N32...)
	if thorough {
		for n := int64(1); n <= 40; n++ {
			ns = append(ns, n)
		}
		for k := uint(1); k <= 30; k++ {
			ns = append(ns, 1<<k-1, 1<<k, 1<<k+1)
		}
		ns = append(ns, 1000, 1000000, 2147483645, 1431655765, 1431655766)
	}
	seen := map[int64]bool{}
	const shards = 56
	for _, n := range ns {
		if seen[n] || n < 1 {
			continue
		}
		seen[n] = true
		for i := uint64(0); i < shards; i++ {
			lo := (uint64(1) << 32) * i / shards
			hi := (uint64(1) << 32) * (i + 1) / shards
			emit("w32: all 2^32 words", c05Case{Kind: "w32", N: n, Lo: lo, Hi: hi})
		}
	}
	// 64-bit path on stated windows
	n64 := []int64{1, 2, 3, 6, 7, 10, 20, 100, 1000, 1 << 31, 1<<31 - 1, 1<<32 + 1, 1<<62 - 1, 1 << 62, 1<<62 + 1, math.MaxInt64 - 1, math.MaxInt64 - 2, math.MaxInt64 / 3, 6148914691236517205, 6148914691236517206}
	if thorough {
		for n := int64(1); n <= 64; n++ {
			n64 = append(n64, n)
		}
		for k := uint(2); k <= 62; k++ {
			n64 = append(n64, 1<<k-1, 1<<k+1)
		}
	}
	seen = map[int64]bool{}
	for _, n := range n64 {
		if seen[n] {
			continue
		}
		seen[n] = true
		emit("w64: word windows", c05Case{Kind: "w64", N: n})
	}
	// whole-VM streams vs the independent reference
	for s := int64(1); s <= 8; s++ {
		for _, n := range []int64{1, 2, 6, 7, 20, 100, 1000, 1<<31 - 1, 1 << 40, math.MaxInt64 - 1} {
			emit("stream: seeded VM vs reference PCG", c05Case{Kind: "stream", N: n, Seed: s})
		}
	}
	for s := int64(1); s <= 4; s++ {
		for _, n := range []int64{2, 6, 20, 100} {
			for e := range c05Exprs {
				emit("stream: several dice in one evaluation", c05Case{Kind: "stream-expr", N: n, Seed: s, Expr: e})
			}
		}
	}
	// dice without written sides: the default-sides setting in force decides, also after it was changed on a used VM
	for s := int64(1); s <= 4; s++ {
		emit("stream: default sides changed on a used VM", c05Case{Kind: "stream-def", N: 6, Seed: s})
		emit("stream: default sides changed on a used VM", c05Case{Kind: "stream-def", N: 100, Seed: s})
	}
	// VMs that were never given a seed share ONE process-wide generator: their dice are successive draws of it (never the same draws twice)
	for s := int64(1); s <= 6; s++ {
		for _, n := range []int64{6, 100, 1 << 40} {
			emit("stream: unseeded VMs on the shared generator", c05Case{Kind: "stream-shared", N: n, Seed: s})
		}
	}
	// the reference algorithm itself is uniform: complete enumeration at 16-bit width
	emit("ref16", c05Case{Kind: "ref16", N: 1 << 12})
}

func c05Run(raw json.RawMessage) harn.Result {
	var c c05Case
	if err := json.Unmarshal(raw, &c); err != nil {
		panic(err)
	}
	res := harn.Result{Stats: map[string]int64{}, Nontrivial: true, Outcome: c.Kind}
	viol := func(sig, what string) {
		if len(res.Violations) < 2 {
			res.Violations = append(res.Violations, harn.Violation{Signature: sig, What: fmt.Sprintf("n=%d: %s", c.N, what)})
		}
	}
	ds.VerifRollHook, ds.VerifStepHook = nil, nil
	buf := make([]byte, 16)
	src := &rand.PCGSource{}
	switch c.Kind {
	case "w32":
		n := int(c.N)
		// per-face counts of words accepted at first draw; faces folded mod 64 buckets for big n
		small := n <= 4096
		var counts []uint32
		if small {
			counts = make([]uint32, n+1)
		}
		var rejected uint64
		var lowSum, total uint64
		for w := c.Lo; w < c.Hi; w++ {
			post := u128{0, w << 32}
			setState(src, pcgBefore(post), buf)
			r := ds.VerifRoll32(src, n)
			if r < 1 || r > n {
				viol("C05:w32:out-of-range", fmt.Sprintf("word %#x -> face %d", w, r))
				return res
			}
			// exactly one word consumed?
			if src.Uint64() != pcgOut(pcgStep(post)) {
				rejected++
				continue
			}
			// an accepted word must map by the unbiased rule: equal-sized classes
			if small {
				counts[r]++
			} else {
				total++
				if uint64(r) <= uint64(n)/2 {
					lowSum++
				}
				// spot identity: face = w mod n + 1 is the only unbiased assignment that keeps order classes equal; check it
				if uint64(r) != w%uint64(n)+1 {
					viol("C05:w32:face", fmt.Sprintf("word %#x -> face %d, expected %d", w, r, w%uint64(n)+1))
					return res
				}
			}
		}
		res.Stats["words"] = int64(c.Hi - c.Lo)
		res.Stats["words_rejected"] = int64(rejected)
		// shard-level oracle: within a contiguous word range every face count differs by at most 1 from (range/n)
		if small {
			span := c.Hi - c.Lo - rejected
			lo, hi := uint32(span/uint64(n)), uint32((span+uint64(n)-1)/uint64(n))
			for f := 1; f <= n; f++ {
				if counts[f] < lo || counts[f] > hi {
					viol("C05:w32:biased", fmt.Sprintf("words [%#x,%#x): face %d produced by %d accepted words, every face should get %d..%d", c.Lo, c.Hi, f, counts[f], lo, hi))
					break
				}
			}
		}
		// exact uniformity: exactly the words at or above the largest multiple of n that fits the word space are rejected
		// (the accepted words [0, ceiling) then split evenly over the faces); restated independently of the implementation
		ceil32 := (uint64(1) << 32) / uint64(n) * uint64(n)
		if n&(n-1) == 0 {
			ceil32 = 1 << 32
		}
		wantRej := uint64(0)
		if c.Hi > ceil32 {
			lo := c.Lo
			if lo < ceil32 {
				lo = ceil32
			}
			wantRej = c.Hi - lo
		}
		if rejected != wantRej {
			viol("C05:w32:rejections", fmt.Sprintf("words [%#x,%#x): %d words rejected, exact uniformity needs exactly the %d words at or above %#x", c.Lo, c.Hi, rejected, wantRej, ceil32))
		}
		res.Sample = fmt.Sprintf("n=%d words [%#x,%#x) through _roll32: %d rejected", n, c.Lo, c.Hi, rejected)
	case "w64":
		n := uint64(c.N)
		var windows [][2]uint64
		add := func(lo, hi uint64) { windows = append(windows, [2]uint64{lo, hi}) }
		add(0, 4096)
		add(math.MaxUint64-8191, math.MaxUint64)
		ceiling := math.MaxUint64 - math.MaxUint64%n
		if ceiling > 4096 {
			add(ceiling-4096, ceiling)
		}
		if ceiling < math.MaxUint64-4096 {
			add(ceiling, ceiling+4096)
		}
		for j := uint64(1); j < 256; j++ {
			add(j<<56-64, j<<56+64)
		}
		for k := uint(1); k < 64; k++ {
			add(uint64(1)<<k-64, uint64(1)<<k+64)
		}
		var words int64
		for _, win := range windows {
			for w := win[0]; ; w++ {
				post := u128{0, w}
				setState(src, pcgBefore(post), buf)
				got := ds.VerifRoll64(src, int64(n))
				st := pcgBefore(post)
				want := refRoll64(&st, n)
				words++
				if uint64(got) != want {
					viol("C05:w64:face", fmt.Sprintf("word %#x -> face %d, reference (first word below the largest multiple of n, mod n, +1) gives %d", w, got, want))
					return res
				}
				// same number of words consumed
				if src.Uint64() != pcgOut(pcgStep(st)) {
					viol("C05:w64:consumption", fmt.Sprintf("word %#x: generator not advanced as the reference", w))
					return res
				}
				if w == win[1] {
					break
				}
			}
		}
		res.Stats["words"] = words
		res.Sample = fmt.Sprintf("n=%d: %d words in %d windows through _roll64 vs reference", n, words, len(windows))
	case "stream-def":
		cfg := drv.AllOn()
		cfg.Seed = c.Seed
		cfg.DefExpr = fmt.Sprint(c.N)
		vm := drv.NewVM(cfg)
		seedBytes := drv.SeedBytes(c.Seed)
		st := u128{binary.BigEndian.Uint64(seedBytes[:8]), binary.BigEndian.Uint64(seedBytes[8:])}
		for step, n := range []int64{c.N, c.N * 3, 2, c.N} {
			vm.Config.DefaultDiceSideExpr = fmt.Sprint(n)
			if err := vm.Run("4d"); err != nil {
				viol("C05:stream:error", err.Error())
				return res
			}
			var want []uint64
			for i := 0; i < 4; i++ {
				want = append(want, refRoll64(&st, uint64(n)))
			}
			got := atoiAllBig(strings.SplitN(vm.DetailSpans[0].Text, "=", 2)[len(strings.SplitN(vm.DetailSpans[0].Text, "=", 2))-1])
			same := len(got) == 4
			for i := 0; same && i < 4; i++ {
				same = got[i] == want[i]
			}
			if !same {
				viol("C05:stream:faces", fmt.Sprintf("seed %d step %d: 4d with DefaultDiceSideExpr=%d rolled %v (%q), the reference stream gives %v", c.Seed, step, n, got, vm.DetailSpans[0].Text, want))
				return res
			}
		}
		res.Sample = "default sides changed on a used VM"
	case "stream-shared":
		ds.VerifSeedGlobal(uint64(c.Seed) * 7919)
		b0, _ := ds.VerifGlobalSource().MarshalBinary()
		st := u128{binary.BigEndian.Uint64(b0[:8]), binary.BigEndian.Uint64(b0[8:])}
		vms := []*ds.Context{drv.NewVM(drv.AllOn()), drv.NewVM(drv.AllOn()), drv.NewVM(drv.AllOn())}
		src := fmt.Sprintf("4d%d", c.N)
		for turn := 0; turn < 6; turn++ {
			vm := vms[turn%3]
			if err := vm.Run(src); err != nil {
				viol("C05:stream:error", err.Error())
				return res
			}
			var want []uint64
			for i := 0; i < 4; i++ {
				want = append(want, refRoll64(&st, uint64(c.N)))
			}
			got := atoiAllBig(vm.DetailSpans[0].Text)
			same := len(got) == 4
			for i := 0; same && i < 4; i++ {
				same = got[i] == want[i]
			}
			if !same {
				viol("C05:stream:shared", fmt.Sprintf("global seed %d: unseeded VM #%d (turn %d) rolled %v for %s; the shared generator's next draws are %v (unseeded VMs must consume successive draws of the one shared generator)", c.Seed, turn%3, turn, got, src, want))
				return res
			}
		}
		res.Sample = fmt.Sprintf("3 unseeded VMs alternating on %s vs the shared reference stream", src)
	case "stream-expr":
		cfg := drv.AllOn()
		cfg.Seed = c.Seed
		vm := drv.NewVM(cfg)
		seedBytes := drv.SeedBytes(c.Seed)
		st := u128{binary.BigEndian.Uint64(seedBytes[:8]), binary.BigEndian.Uint64(seedBytes[8:])}
		e := c05Exprs[c.Expr]
		src := fmt.Sprintf(e.tmpl, c.N)
		if err := vm.Run(src); err != nil {
			viol("C05:stream:error", src+": "+err.Error())
			return res
		}
		want := int64(0)
		var faces []int64
		for _, t := range e.terms {
			f := int64(refRoll64(&st, uint64(c.N)))
			faces = append(faces, f)
			mn, mx := t[0], t[1]
			if mn == -1 {
				mn = c.N
			}
			if mx != 0 && f > mx {
				f = mx
			}
			if mn != 0 && f < mn {
				f = mn
			}
			want += f
		}
		if got, ok := vm.Ret.ReadInt(); !ok || int64(got) != want {
			viol("C05:stream:faces", fmt.Sprintf("seed %d: %q gives %s; the reference stream draws the faces %v, i.e. %d (every die of one evaluation is a fresh, unconstrained draw)", c.Seed, src, vm.Ret.ToString(), faces, want))
		}
		after, _ := vm.GetCurSeed()
		if binary.BigEndian.Uint64(after[:8]) != st.hi || binary.BigEndian.Uint64(after[8:]) != st.lo {
			viol("C05:stream:state", fmt.Sprintf("seed %d: generator state after %q differs from the reference", c.Seed, src))
		}
		res.Sample = fmt.Sprintf("seed %d %s vs reference stream", c.Seed, src)
	case "stream":
		cfg := drv.AllOn()
		cfg.Seed = c.Seed
		vm := drv.NewVM(cfg)
		seedBytes := drv.SeedBytes(c.Seed)
		st := u128{binary.BigEndian.Uint64(seedBytes[:8]), binary.BigEndian.Uint64(seedBytes[8:])}
		const k = 12
		src := fmt.Sprintf("%dd%d", k, c.N)
		if err := vm.Run(src); err != nil {
			viol("C05:stream:error", err.Error())
			return res
		}
		var want []int
		sum := uint64(0)
		for i := 0; i < k; i++ {
			f := refRoll64(&st, uint64(c.N))
			want = append(want, int(f))
			sum += f
		}
		got := atoiAllBig(vm.DetailSpans[0].Text)
		okFaces := len(got) == k
		for i := 0; okFaces && i < k; i++ {
			okFaces = got[i] == uint64(want[i])
		}
		if !okFaces {
			viol("C05:stream:faces", fmt.Sprintf("seed %d: %s rolled %v, the reference PCG stream gives %v", c.Seed, src, got, want))
		}
		// RunExpr evaluates on the same context: its dice are further fresh draws, and the dice after it continue the stream
		rv, rerr := vm.RunExpr(fmt.Sprintf("3d%d", c.N), false)
		var rsum uint64
		for i := 0; i < 3; i++ {
			rsum += refRoll64(&st, uint64(c.N))
		}
		if rerr != nil || rv == nil || rv.ToString() != fmt.Sprint(rsum) {
			if c.N < 1<<40 { // sums of huge faces overflow; only the stream position matters there
				viol("C05:stream:RunExpr", fmt.Sprintf("seed %d: RunExpr(3d%d) gave %v (err %v), the reference stream gives %d", c.Seed, c.N, rv, rerr, rsum))
			}
		}
		if err := vm.Run(src); err != nil {
			viol("C05:stream:error", err.Error())
			return res
		}
		var want2 []uint64
		for i := 0; i < k; i++ {
			want2 = append(want2, refRoll64(&st, uint64(c.N)))
		}
		got2 := atoiAllBig(vm.DetailSpans[0].Text)
		ok2 := len(got2) == k
		for i := 0; ok2 && i < k; i++ {
			ok2 = got2[i] == want2[i]
		}
		if !ok2 {
			viol("C05:stream:after-RunExpr", fmt.Sprintf("seed %d: after RunExpr the next %s rolled %v, the reference stream continues with %v (a die was replayed or skipped)", c.Seed, src, got2, want2))
		}
		after, _ := vm.GetCurSeed()
		if binary.BigEndian.Uint64(after[:8]) != st.hi || binary.BigEndian.Uint64(after[8:]) != st.lo {
			viol("C05:stream:state", fmt.Sprintf("seed %d: generator state after %s differs from the reference (dice must be successive fresh draws of the context's generator)", c.Seed, src))
		}
		res.Stats["words"] = k
		res.Sample = fmt.Sprintf("seed %d %s vs reference stream", c.Seed, src)
	case "ref16":
		// the reference rule at 16-bit width is exactly uniform for every n <= 4096 (complete enumeration)
		for n := uint32(1); n <= uint32(c.N); n++ {
			counts := make([]uint32, n)
			ceiling := uint32(0xFFFF) - uint32(0xFFFF)%n
			for w := uint32(0); w <= 0xFFFF; w++ {
				if n&(n-1) == 0 {
					counts[w&(n-1)]++
				} else if w < ceiling {
					counts[w%n]++
				}
			}
			for f := uint32(1); f < n; f++ {
				if counts[f] != counts[0] {
					viol("MACHINERY:reference-biased", fmt.Sprintf("reference rule biased at width 16 for n=%d", n))
					return res
				}
			}
			res.Stats["words"] += 65536
		}
		res.Sample = "reference rule uniform at 16-bit width for every n <= 4096"
	}
	return res
}

func atoiAllBig(s string) []uint64 {
	var out []uint64
	cur, in := uint64(0), false
	for i := 0; i <= len(s); i++ {
		if i < len(s) && s[i] >= '0' && s[i] <= '9' {
			cur = cur*10 + uint64(s[i]-'0')
			in = true
		} else if in {
			out = append(out, cur)
			cur, in = 0, false
		}
	}
	return out
}

func init() {
	harn.Register(&harn.Check{
		ID:   "C05",
		Rule: "w32: for each listed n, EVERY 32-bit generator word (2^32, sharded into 56 contiguous ranges) is fed to the real _roll32 by constructing the PCG state whose next output is that word; per range every face must be produced by floor/ceil(range/n) accepted words, words may be rejected only at the very top of the word space and exactly (2^32-1) mod n + 1 of them. w64: the real _roll64 is compared with an independent re-implementation (128-bit LCG + first-word-below-largest-multiple rule) on every word of the windows [0,4096), [2^64-8192,2^64), ceiling +-4096, j*2^56 +-64 for all j, 2^k +-64 for all k, including the number of words consumed. stream: seeded VMs rolling 12dN must show exactly the faces and final generator state of the reference stream (successive fresh draws of the context's generator). ref16: the reference rule is exactly uniform for every n <= 4096 at 16-bit width. A case is one (n, word range/window set/seed); all are non-trivial.",
		Assume: []string{"the statistical quality of the PCG generator itself (library) is trusted; what is decided is the word-to-face arithmetic", "64-bit words outside the listed windows are not enumerated (2^64 is out of reach); the 32-bit twin of the same algorithm is enumerated completely"},
		Enumerate:   c05Enumerate,
		Run:         c05Run,
		CaseTimeout: 300 * time.Second,
		Budget:      map[string]time.Duration{"quick": 400 * time.Second, "thorough": 60 * time.Minute},
		Extra: func(stats map[string]int64, cov map[string]any) {
			cov["generator_words_enumerated"] = stats["words"]
		},
	})
}
