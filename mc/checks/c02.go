package checks

import (
	"encoding/json"
	"fmt"
	"strings"
	"time"

	ds "github.com/sealdice/dicescript"
	"verifmc/drv"
	"verifmc/harn"
	. "verifmc/ref"
)

// C02 — evaluation agrees with the definitional semantics. Every program of
// each stratum is generated as an AST, printed, run on the real VM and on the
// independent reference interpreter (package ref); value or error-ness and
// the variables must agree, also across sequences of programs on one VM.

type c02Case struct {
	Progs   [][]*Node // programs run in order on one VM / one reference store
	Variant int       // printing variant
	Div0    bool      `json:",omitempty"`
	Dice    int       `json:",omitempty"` // -1 min mode, 1 max mode
	Src     []string  `json:",omitempty"` // printed sources (filled for reports)
}

func printerFor(variant int) Printer {
	switch variant % 4 {
	case 1:
		return Printer{Sp: " ", StmtSep: "; "}
	case 2:
		return Printer{Sp: " ", NL: true, StmtSep: "\n"}
	case 3:
		return Printer{Sp: "  ", StmtSep: " ;\n"}
	}
	return Printer{Sp: "", StmtSep: ";"}
}

var c02Leaves = func() []*Node {
	return []*Node{
		Int(0), Int(3), Int(-2), Float(1.5), Float(0), Str(""), Str("ab"), Null(), Arr(), Arr(Int(1), Int(2)),
		{K: KDict}, {K: KDict, Kids: []*Node{Str("k"), Int(1)}},
	}
}

var c02BinOps = []string{"+", "-", "*", "/", "%", "^", "**", "??", "<", "<=", "==", "!=", ">=", ">", "&", "|", "&&", "||"}

func dice(src string, times, sides, mode, n int, min, max *int) *Node {
	return &Node{K: KDice, S: src, Times: times, Sides: sides, Mode: mode, N: n, Min: min, Max: max}
}

func c02Enumerate(tier string, seed int64, emit func(string, any)) {
	thorough := tier == "thorough"
	v := 0
	one := func(stratum string, prog []*Node) {
		v++
		emit(stratum, c02Case{Progs: [][]*Node{prog}, Variant: v})
	}
	x, y := Var("x"), Var("y")
	// ---- A: operators x operand kinds
	for _, op := range c02BinOps {
		for _, a := range c02Leaves() {
			for _, b := range c02Leaves() {
				one("A operators x types", []*Node{Bin(op, a, b)})
				if op == "/" {
					v++
					emit("H IgnoreDiv0", c02Case{Progs: [][]*Node{{Bin(op, a, b)}}, Variant: v, Div0: true})
				}
			}
		}
	}
	// operands that END in a postfix form (index, attribute, call, method call, slice, parenthesis) or start with a prefix
	// operator, on either side of every operator: the token after ']' / ')' / an attribute name decides how it is read
	{
		pre := []*Node{Assign("p", Arr(Int(1), Int(2), Int(3))), Assign("q", &Node{K: KDict, Kids: []*Node{Str("k"), Int(1)}}), {K: KFunc, S: "g", Params: []string{"a"}, Body: []*Node{Var("a")}}, Assign("w", Int(2))}
		p, q := Var("p"), Var("q")
		post := []*Node{
			{K: KIndex, A: p, B: Int(0)}, {K: KIndex, A: p, B: Int(-1)}, {K: KIndex, A: q, B: Str("k")}, {K: KAttr, A: q, S: "k"}, Call(Var("g"), Int(1)), Method(p, "len"), Method(p, "sum"), {K: KSlice, A: p, B: Int(0), C: Int(1)},
			{K: KIndex, A: Arr(Int(4), Int(5)), B: Int(1)}, {K: KIndex, A: &Node{K: KIndex, A: Arr(Arr(Int(7))), B: Int(0)}, B: Int(0)}, Un("-", Var("w")), Var("w"),
		}
		others := []*Node{Int(1), Int(0), Str("ab"), Var("w"), {K: KIndex, A: p, B: Int(1)}}
		for _, op := range c02BinOps {
			for _, a := range post {
				for _, b := range others {
					one("A operators x postfix operands", append(append([]*Node{}, pre...), Bin(op, a, b)))
					one("A operators x postfix operands", append(append([]*Node{}, pre...), Bin(op, b, a)))
				}
				// as a condition, an assigned value, an array element, a call argument, a ternary condition
				one("A operators x postfix operands", append(append([]*Node{}, pre...), &Node{K: KIf, A: Bin(op, a, Int(1)), Body: []*Node{Assign("w", Int(9))}}, Var("w")))
				one("A operators x postfix operands", append(append([]*Node{}, pre...), Assign("y", Bin(op, a, Int(1))), Var("y")))
				one("A operators x postfix operands", append(append([]*Node{}, pre...), Arr(Bin(op, a, Int(1)), Int(7))))
				one("A operators x postfix operands", append(append([]*Node{}, pre...), &Node{K: KTern, A: Bin(op, a, Int(1)), B: Int(5), C: Int(6)}))
				one("A operators x postfix operands", append(append([]*Node{}, pre...), &Node{K: KWhile, A: Bin("&&", Bin("<", Var("w"), Int(4)), Bin(op, a, Int(1))), Body: []*Node{Assign("w", Bin("+", Var("w"), Int(1)))}}, Var("w")))
			}
		}
	}
	for _, a := range c02Leaves() {
		one("A operators x types", []*Node{Un("-", a)})
		one("A operators x types", []*Node{Un("+", a)})
		for _, f := range []string{"ceil", "floor", "round", "abs", "toInt", "toFloat", "toStr", "toBool", "repr", "typeId"} {
			one("A builtins x types", []*Node{Call(Var(f), a)})
		}
		for _, m := range []string{"sum", "len", "pop", "shift", "kh", "kl", "keys", "values", "items", "nosuch"} {
			one("A methods x types", []*Node{Method(a, m)})
		}
		one("A methods x types", []*Node{Method(a, "push", Int(9))})
		one("A methods x types", []*Node{Method(a, "kh", Int(2))})
		one("A methods x types", []*Node{{K: KAttr, A: a, S: "k"}})
		for _, i := range []*Node{Int(0), Int(-1), Int(1), Int(2), Int(-3), Str("k"), Float(1.5), Null()} {
			one("A index x types", []*Node{Index(a, i)})
			one("A index x types", []*Node{{K: KSlice, A: a, B: i}})
			one("A index x types", []*Node{{K: KSlice, A: a, C: i}})
		}
	}
	for _, s := range []string{"12", "-3", "1.5", "abc", "", " 4", "1e3"} {
		one("A builtins x types", []*Node{Call(Var("toInt"), Str(s))})
		one("A builtins x types", []*Node{Call(Var("toFloat"), Str(s))})
	}
	for _, f := range []float64{2.5, -2.5, 0.5, -0.5, 3.49, 1e15} {
		for _, fn := range []string{"ceil", "floor", "round", "toInt", "abs", "toStr"} {
			one("A builtins x types", []*Node{Call(Var(fn), Float(f))})
		}
	}
	for a := int64(-3); a <= 600; a += 67 {
		for b := int64(-3); b <= 600; b += 101 {
			one("A ranges and repeats", []*Node{Method(&Node{K: KRange, A: Int(a), B: Int(b)}, "len")})
			one("A ranges and repeats", []*Node{Method(Bin("*", Arr(Int(1), Int(2)), Int(b)), "len")})
		}
	}
	// ---- B: precedence / associativity
	ops := c02BinOps
	leaves := []*Node{Int(2), Int(3), Int(5), Float(1.5)}
	for _, o1 := range ops {
		for _, o2 := range ops {
			l := leaves
			one("B precedence pairs", []*Node{Bin(o2, Bin(o1, l[0], l[1]), l[2])})
			one("B precedence pairs", []*Node{Bin(o1, l[0], Bin(o2, l[1], l[2]))})
			one("B precedence pairs", []*Node{Bin(o1, l[3], Bin(o2, l[1], Un("-", l[0])))})
			one("B precedence pairs", []*Node{{K: KTern, A: Bin(o1, l[0], l[1]), B: Bin(o2, l[1], l[2]), C: l[0]}})
			for _, o3 := range ops {
				one("B precedence triples", []*Node{Bin(o3, Bin(o2, Bin(o1, l[0], l[1]), l[2]), l[0])})
				one("B precedence triples", []*Node{Bin(o1, l[0], Bin(o2, l[1], Bin(o3, l[2], l[0])))})
				one("B precedence triples", []*Node{Bin(o2, Bin(o1, l[0], l[1]), Bin(o3, l[2], l[0]))})
				one("B precedence triples", []*Node{Bin(o1, l[0], Bin(o3, Bin(o2, l[1], l[2]), l[0]))})
				one("B precedence triples", []*Node{Bin(o3, Bin(o1, l[0], Bin(o2, l[1], l[2])), l[0])})
			}
		}
	}
	// ---- C: ternary / logical / null-coalescing compositions
	atoms := []*Node{Int(0), Int(1), Str(""), Null(), x}
	pre := Assign("x", Int(7))
	var depth1 []*Node
	for _, a := range atoms {
		for _, b := range atoms {
			depth1 = append(depth1, Bin("||", a, b), Bin("&&", a, b), Bin("??", a, b))
			for _, c := range atoms[:3] {
				depth1 = append(depth1, &Node{K: KTern, A: a, B: b, C: c})
			}
			depth1 = append(depth1, &Node{K: KTern2, Kids: []*Node{a, b}}, &Node{K: KTern2, Kids: []*Node{a, b, b, a}})
		}
	}
	for _, d := range depth1 {
		one("C logic compositions", []*Node{pre, d})
	}
	for _, d := range depth1 {
		for _, a := range atoms {
			one("C logic compositions", []*Node{pre, Bin("||", d, a)})
			one("C logic compositions", []*Node{pre, Bin("&&", a, d)})
			one("C logic compositions", []*Node{pre, {K: KTern, A: d, B: a, C: Int(9)}})
			one("C logic compositions", []*Node{pre, {K: KTern2, Kids: []*Node{d, a, a, Int(8)}}})
			one("C logic compositions", []*Node{pre, Bin("??", d, a)})
		}
	}
	// ---- D: statements
	exprs := []*Node{Int(0), Int(1), x, Bin("+", x, Int(1)), Bin("<", x, Int(2)), y}
	var simple []*Node
	for _, e := range exprs {
		simple = append(simple, Assign("x", e), Assign("y", e), e)
	}
	simple = append(simple, &Node{K: KBreak}, &Node{K: KContinue}, &Node{K: KReturn, A: x}, &Node{K: KReturn})
	conds := []*Node{Bin("<", x, Int(2)), Int(0), y}
	inc := Assign("x", Bin("+", x, Int(1)))
	var compound []*Node
	bodies := [][]*Node{}
	small := []*Node{Assign("x", Bin("+", x, Int(1))), Assign("y", Int(1)), {K: KBreak}, {K: KContinue}, {K: KReturn, A: x}, x}
	for _, a := range small {
		bodies = append(bodies, []*Node{a})
		for _, b := range small {
			bodies = append(bodies, []*Node{a, b})
		}
	}
	for _, c := range conds {
		for _, b := range bodies {
			compound = append(compound, &Node{K: KIf, A: c, Body: b})
			compound = append(compound, &Node{K: KWhile, A: Bin("<", x, Int(3)), Body: append(append([]*Node{}, b...), inc)})
			compound = append(compound, &Node{K: KWhile, A: Bin("<", x, Int(3)), Body: append([]*Node{inc}, b...)})
		}
		for _, b := range small {
			for _, e := range small {
				compound = append(compound, &Node{K: KIf, A: c, Body: []*Node{b}, HasElse: true, Else: []*Node{e}})
				compound = append(compound, &Node{K: KIf, A: c, Body: []*Node{b}, HasElse: true, Else: []*Node{{K: KIf, A: Bin("<", x, Int(1)), Body: []*Node{e}, HasElse: true, Else: []*Node{y}}}})
			}
		}
	}
	compound = append(compound, &Node{K: KIf, A: x}, &Node{K: KIf, A: x, HasElse: true}, &Node{K: KWhile, A: Int(0)})
	init := []*Node{Assign("x", Int(0)), Assign("y", Int(5))}
	for _, s := range simple {
		one("D statements", append(append([]*Node{}, init...), s))
		for _, t := range simple {
			one("D statements", append(append([]*Node{}, init...), s, t))
		}
	}
	for i, c := range compound {
		one("D statements", append(append([]*Node{}, init...), c, x))
		one("D statements", append(append([]*Node{}, init...), c))
		for j, s := range simple {
			if !thorough && (i+j)%2 != 0 {
				continue
			}
			one("D statements", append(append([]*Node{}, init...), s, c, y))
			one("D statements", append(append([]*Node{}, init...), c, s))
		}
		// nesting depth 2
		if thorough || (i%3+i/3)%3 == 0 { // (not i%3: the compounds come in triples if / while / while, and every kind must occur nested)
			one("D nested", append(append([]*Node{}, init...), &Node{K: KWhile, A: Bin("<", x, Int(3)), Body: []*Node{inc, c}}, Arr(x, y)))
			one("D nested", append(append([]*Node{}, init...), &Node{K: KIf, A: Int(1), Body: []*Node{c, inc}}, Arr(x, y)))
			one("D nested", append(append([]*Node{}, init...), &Node{K: KFunc, S: "g", Params: []string{"x"}, Body: []*Node{c, x}}, Call(Var("g"), Int(1)), Arr(x, y)))
			one("D nested", append(append([]*Node{}, init...), &Node{K: KTpl, Kids: []*Node{Str("<"), {K: KHole, Style: 2, Body: []*Node{c}}, Str(">"), {K: KHole, Style: 1, Body: []*Node{x}}}}))
		}
	}
	// ---- E: functions, scope, computed values
	fbodies := [][]*Node{
		{Var("a")}, {Bin("+", Var("a"), x)}, {Assign("x", Int(9)), x}, {Assign("t", Var("a")), Var("t")}, {{K: KThisAttr, S: "a"}}, {{K: KAssignThis, S: "z", A: Int(4)}, {K: KThisAttr, S: "z"}},
		{{K: KIf, A: Var("a"), Body: []*Node{{K: KReturn, A: Int(1)}}}, Int(2)}, {{K: KReturn, A: Var("a")}, Int(3)}, {}, {Var("nosuch")}, {Call(Var("h"), Var("a"))},
		{{K: KTern, A: Bin("<=", Var("a"), Int(0)), B: Int(0), C: Bin("+", Int(1), Call(Var("g"), Bin("-", Var("a"), Int(1))))}},
		{{K: KAssign, S: "a", A: Bin("+", Var("a"), Int(1))}, Var("a")}, {Method(Var("a"), "push", Int(7)), Int(0)},
	}
	hfun := &Node{K: KFunc, S: "h", Params: []string{"b"}, Body: []*Node{Bin("*", Var("b"), Var("x"))}}
	for _, fb := range fbodies {
		g := &Node{K: KFunc, S: "g", Params: []string{"a"}, Body: fb}
		for _, arg := range []*Node{Int(2), Int(0), x, Arr(Int(1))} {
			one("E functions and scope", []*Node{Assign("x", Int(3)), hfun, g, Call(Var("g"), arg), Arr(x, Var("t"), Var("z"))})
			one("E functions and scope", []*Node{Assign("x", Int(3)), Assign("w", arg), hfun, g, Call(Var("g"), Var("w")), Var("w")})
		}
		one("E functions and scope", []*Node{hfun, g, Call(Var("g"))})
		one("E functions and scope", []*Node{hfun, g, Call(Var("g"), Int(1), Int(2))})
		g0 := &Node{K: KFunc, S: "g", Params: nil, Body: fb}
		one("E functions and scope", []*Node{Assign("a", Int(6)), Assign("x", Int(2)), hfun, g0, Call(Var("g")), Var("a")})
		g2 := &Node{K: KFunc, S: "g", Params: []string{"a", "a2"}, Body: fb}
		one("E functions and scope", []*Node{Assign("x", Int(2)), hfun, g2, Call(Var("g"), Int(1), Int(2))})
	}
	cexprs := []*Node{Bin("+", x, Int(1)), x, {K: KThisAttr, S: "k"}, Bin("+", Var("k"), x), Assign("k", Bin("+", Bin("??", Var("k"), Int(0)), Int(1))), Var("c2"), Arr(x, x), Str("s")}
	for _, ce := range cexprs {
		def := &Node{K: KAssignComp, S: "c", A: ce}
		c2 := &Node{K: KAssignComp, S: "c2", A: Bin("*", x, Int(2))}
		c := Var("c")
		for _, use := range [][]*Node{
			{c}, {c, c}, {Bin("+", c, Int(0))}, {{K: KRawVar, S: "c"}}, {{K: KAssignCompAttr, S: "c", S2: "k", A: Int(5)}, c}, {{K: KAssignCompAttr, S: "c", S2: "k", A: Int(5)}, {K: KAttr, A: &Node{K: KRawVar, S: "c"}, S: "k"}},
			{Assign("x", Int(8)), c}, {Assign("c", Int(1)), c}, {&Node{K: KFunc, S: "g", Params: []string{"x"}, Body: []*Node{c}}, Call(Var("g"), Int(20))}, {Assign("dd", &Node{K: KRawVar, S: "c"}), Var("dd")}, {Method(&Node{K: KRawVar, S: "c"}, "compute")},
		} {
			one("E computed values", append([]*Node{Assign("x", Int(3)), c2, def}, use...))
		}
	}
	// ---- F: containers and aliasing: all sequences of <= 2 (3) operations, then observe both variables
	a, b := Var("p"), Var("q")
	inits := [][]*Node{
		{Assign("p", Arr(Int(1), Int(2), Int(3))), Assign("q", a)},
		{Assign("p", Arr(Int(1), Int(2), Int(3))), Assign("q", Arr(a, Int(0)))},
		{Assign("p", &Node{K: KDict, Kids: []*Node{Str("k"), Arr(Int(1))}}), Assign("q", &Node{K: KAttr, A: a, S: "k"})},
		{Assign("p", &Node{K: KDict, Kids: []*Node{Str("k"), Int(1)}}), Assign("q", a)},
	}
	opsF := func(p, q *Node) []*Node {
		return []*Node{
			Method(p, "push", Int(9)), Method(p, "pop"), Method(p, "shift"), {K: KAssignIndex, A: p, B: Int(0), C: Int(7)}, {K: KAssignIndex, A: p, B: Int(-1), C: q}, {K: KAssignIndex, A: p, B: Str("k"), C: Int(6)},
			{K: KAssignAttr, S: p.S, S2: "j", A: Int(4)}, {K: KAssignSlice, A: p, B: Int(0), C: Int(1), D: Arr(Int(8), Int(8))}, {K: KAssignSlice, A: p, B: Int(1), D: Arr()}, Assign(p.S, Bin("+", p, Arr(Int(5)))), Assign(p.S, Bin("*", p, Int(2))),
			Assign(p.S, &Node{K: KSlice, A: p, B: Int(1)}), Assign(q.S, p), Assign(p.S, Arr(p, p)),
			Assign(q.S, &Node{K: KSlice, A: p}), Assign(q.S, &Node{K: KSlice, A: p, B: Int(0)}), Assign(q.S, &Node{K: KSlice, A: p, B: Int(0), C: Int(3)}), Assign(q.S, &Node{K: KSlice, A: p, C: Int(-1)}),
			Assign(q.S, Bin("+", p, Arr())), Assign(q.S, Bin("*", p, Int(1))), Assign(q.S, &Node{K: KIndex, A: Arr(p), B: Int(0)}), Method(&Node{K: KIndex, A: p, B: Int(0)}, "push", Int(3)), Assign(p.S, Int(0)),
		}
	}
	all := append(opsF(a, b), opsF(b, a)...)
	for _, in := range inits {
		obs := Arr(a, b)
		for i, o1 := range all {
			one("F containers and aliasing", append(append([]*Node{}, in...), o1, obs))
			// the same operation as the only statement of a template block (most leave no value: the block contributes nothing)
			one("F container operation inside a template block", append(append([]*Node{}, in...), Assign("t", &Node{K: KTpl, Kids: []*Node{Str("<"), {K: KHole, Style: 2, Body: []*Node{o1}}, Str(">")}}), Arr(Var("t"), a, b)))
			for j, o2 := range all {
				one("F containers and aliasing", append(append([]*Node{}, in...), o1, o2, obs))
				if thorough {
					for k, o3 := range all {
						if (i+j+k)%4 == 0 {
							one("F containers and aliasing", append(append([]*Node{}, in...), o1, o2, o3, obs))
						}
					}
				}
			}
		}
	}
	// ---- F': bound methods are values of their own: a method taken from one receiver stays bound to it while the same
	// method of another receiver is looked up, called, nested inside its arguments
	attr := func(o *Node, name string) *Node { return &Node{K: KAttr, A: o, S: name} }
	for _, in := range inits[:2] {
		for _, m := range []string{"push", "pop", "shift", "sum", "len", "kh", "kl"} {
			arg := []*Node{}
			if m == "push" {
				arg = []*Node{Int(7)}
			}
			for _, other := range []string{"push", "pop", "sum", "kh", "len"} {
				oarg := []*Node{}
				if other == "push" {
					oarg = []*Node{Int(9)}
				}
				obs := Arr(Var("r"), a, b)
				one("F bound methods", append(append([]*Node{}, in...), Assign("m", attr(a, m)), Method(b, other, oarg...), Assign("r", Call(Var("m"), arg...)), obs))
				one("F bound methods", append(append([]*Node{}, in...), Assign("m", attr(a, m)), Assign("n", attr(b, other)), Assign("r", Arr(Call(Var("m"), arg...), Call(Var("n"), oarg...))), obs))
				one("F bound methods", append(append([]*Node{}, in...), Assign("m", attr(b, m)), Assign("t", attr(a, other)), Assign("r", Call(Var("m"), arg...)), obs))
			}
		}
		// a method call nested in the arguments of the same method of another receiver
		for _, m := range []string{"kh", "kl"} {
			one("F bound methods", append(append([]*Node{}, in...), Method(Arr(Int(1), Int(2)), m, Method(Arr(Int(5), Int(6)), m))))
			one("F bound methods", append(append([]*Node{}, in...), Method(a, m, Method(Arr(Int(2), Int(1)), m))))
			one("F bound methods", append(append([]*Node{}, in...), Bin("+", Method(a, m), Method(Arr(Int(8), Int(9)), m))))
		}
		one("F bound methods", append(append([]*Node{}, in...), Method(a, "push", Method(Arr(Int(5), Int(6)), "pop")), Arr(a, b)))
		one("F bound methods", append(append([]*Node{}, in...), Method(a, "push", Method(Arr(Int(5), Int(6)), "push", Int(1))), Arr(a, b)))
	}
	// ---- G: histories: ordered pairs of programs on one VM (incl. failing ones)
	pool := [][]*Node{
		{Assign("x", Int(5))}, {Assign("x", Arr(Int(1)))}, {x}, {Bin("+", x, Int(1))}, {Method(x, "push", Int(2))}, {Assign("x", Int(1)), Bin("/", Int(1), Int(0))}, {Bin("/", Int(1), Int(0)), Assign("x", Int(2))},
		{&Node{K: KFunc, S: "g", Params: []string{"a"}, Body: []*Node{Bin("+", Var("a"), x)}}}, {Call(Var("g"), Int(1))}, {&Node{K: KAssignComp, S: "c", A: Bin("*", x, Int(2))}}, {Var("c")}, {Assign("c", Int(0))},
		{Assign("y", x), y}, {&Node{K: KAssignIndex, A: x, B: Int(0), C: Int(9)}, x}, {Assign("x", Null()), x}, {Assign("g", Int(3))}, {&Node{K: KIf, A: x, Body: []*Node{Assign("y", Int(1))}}, y},
		{&Node{K: KWhile, A: Bin("<", Bin("??", y, Int(0)), Int(2)), Body: []*Node{Assign("y", Bin("+", Bin("??", y, Int(0)), Int(1)))}}, y}, {Index(x, Int(5))}, {Call(x)}, {&Node{K: KAssignCompAttr, S: "c", S2: "k", A: Int(1)}},
	}
	for _, p1 := range pool {
		for _, p2 := range pool {
			v++
			emit("G histories", c02Case{Progs: [][]*Node{p1, p2}, Variant: v})
			if thorough {
				for _, p3 := range pool[:12] {
					v++
					emit("G histories", c02Case{Progs: [][]*Node{p1, p2, p3}, Variant: v})
				}
			}
		}
	}
	// ---- F'': dicts whose own keys (or whose prototype's keys) are spelled like the built-in dict methods: an own entry wins over
	// the prototype chain, which wins over the built-in method; item access never sees methods
	{
		mk := func(keys ...string) *Node {
			n := &Node{K: KDict}
			for i, k := range keys {
				n.Kids = append(n.Kids, Str(k), Int(int64(i+5)))
			}
			return n
		}
		q := Var("q")
		for _, init := range [][]*Node{
			{Assign("q", mk("len", "items", "keys", "values", "k"))}, {Assign("q", mk("k"))}, {Assign("b", mk("len", "keys")), Assign("q", &Node{K: KDict, Kids: []*Node{Str("__proto__"), Var("b"), Str("items"), Int(1)}})},
		} {
			for _, name := range []string{"len", "items", "keys", "values", "k", "nosuch"} {
				at := &Node{K: KAttr, A: q, S: name}
				one("F dict keys named like methods", append(append([]*Node{}, init...), at))
				one("F dict keys named like methods", append(append([]*Node{}, init...), Index(q, Str(name))))
				one("F dict keys named like methods", append(append([]*Node{}, init...), Bin("+", at, Int(1))))
				if name != "values" && name != "items" && name != "keys" { // (their result lists the entries in map order)
					one("F dict keys named like methods", append(append([]*Node{}, init...), Method(q, name)))
				}
				one("F dict keys named like methods", append(append([]*Node{}, init...), &Node{K: KAssignAttr, S: "q", S2: name, A: Int(9)}, at, Arr(at, Index(q, Str(name)))))
			}
		}
	}
	// ---- G': computed values with a private space (this) that evaluations write to, including evaluations that fail half-way:
	// what an evaluation wrote before it failed stays written
	{
		thisN := &Node{K: KThisAttr, S: "n"}
		bump := &Node{K: KAssignThis, S: "n", A: Bin("+", Bin("??", thisN, Int(0)), Int(1))}
		for _, body := range []*Node{Bin("+", bump, Var("step")), Bin("+", Bin("*", bump, Int(10)), Index(Var("step"), Int(0))), Arr(bump, bump, Call(Var("step")))} {
			def := &Node{K: KAssignComp, S: "c", A: body}
			for _, fix := range [][]*Node{{Assign("step", Int(10))}, {Assign("step", Arr(Int(4)))}, {&Node{K: KFunc, S: "step", Body: []*Node{Int(3)}}}, {Assign("step", Null())}} {
				for _, probe := range [][]*Node{{Var("c")}, {&Node{K: KAttr, A: &Node{K: KRawVar, S: "c"}, S: "n"}}, {Bin("+", Var("c"), Var("c"))}} {
					v++
					emit("G computed values with side effects", c02Case{Progs: [][]*Node{{def}, {Var("c")}, fix, {Var("c")}, probe}, Variant: v})
					v++
					emit("G computed values with side effects", c02Case{Progs: [][]*Node{{def}, {Var("c")}, {Var("c")}, fix, probe, {Var("c")}}, Variant: v})
				}
			}
		}
	}
	// ---- H: dice under min / max mode
	var dterms []*Node
	for xx := 0; xx <= 3; xx++ {
		for yy := 0; yy <= 4; yy += 2 {
			dterms = append(dterms, dice(fmt.Sprintf("%dd%d", xx, yy), xx, yy, 0, 0, nil, nil))
			for mode := 1; mode <= 4; mode++ {
				for n := 0; n <= 4; n += 2 {
					dterms = append(dterms, dice(fmt.Sprintf("%dd%d%s%d", xx, yy, modeNames[mode][0], n), xx, yy, mode, n, nil, nil))
				}
			}
			dterms = append(dterms, dice(fmt.Sprintf("%dd%dmin3", xx, yy), xx, yy, 0, 0, ip(3), nil), dice(fmt.Sprintf("%dd%dmax1", xx, yy), xx, yy, 0, 0, nil, ip(1)))
		}
	}
	var dsmall []*Node
	for i, d := range dterms {
		if d.Times > 0 && d.Sides > 0 && (i%4 == 0 || d.Min != nil || d.Max != nil) {
			dsmall = append(dsmall, d)
		}
	}
	for _, d1 := range dsmall {
		for _, d2 := range dsmall {
			for _, mode := range []int{-1, 1} {
				v++
				emit("H dice pairs under min/max mode", c02Case{Progs: [][]*Node{{Arr(d1, d2, d1)}}, Variant: v, Dice: mode})
				v++
				emit("H dice pairs under min/max mode", c02Case{Progs: [][]*Node{{Assign("x", d1), Bin("+", Bin("*", x, Int(100)), d2)}}, Variant: v, Dice: mode})
			}
		}
	}
	for _, d := range dterms {
		for _, mode := range []int{-1, 1} {
			for _, prog := range [][]*Node{{d}, {Bin("+", d, Int(1))}, {Bin("*", Int(2), d)}, {Arr(d, d)}, {Assign("x", d), Bin("-", x, d)}} {
				v++
				emit("H dice under min/max mode", c02Case{Progs: [][]*Node{prog}, Variant: v, Dice: mode})
			}
		}
	}
}

// addParens marks expression nodes to be printed inside redundant parentheses (never statement roots,
// assignment targets or callees, where the grammar does not accept a parenthesised form).
func addParens(n *Node, root bool) {
	if n == nil {
		return
	}
	switch n.K {
	case KBin, KUn, KTern, KTern2, KIndex, KSlice, KMethod, KCall, KAttr, KArr, KDict, KRange, KInt, KFloat, KStr:
		if !root {
			n.Paren = true
		}
	}
	switch n.K {
	case KCall:
		// callee must stay an identifier
	case KAssignIndex, KAssignSlice:
		// the assignment target (A) must stay a postfix form; index / bounds / value may be parenthesised
	default:
		addParens(n.A, false)
	}
	if n.K == KMethod || n.K == KAttr || n.K == KIndex {
		// already handled A above (a parenthesised receiver is legal)
	}
	addParens(n.B, false)
	addParens(n.C, false)
	addParens(n.D, false)
	for _, k := range n.Kids {
		if n.K == KTpl {
			if k.K == KHole {
				for _, b := range k.Body {
					addParens(b, true)
				}
			}
			continue
		}
		addParens(k, false)
	}
	for _, b := range n.Body {
		addParens(b, true)
	}
	for _, b := range n.Else {
		addParens(b, true)
	}
}

func c02Run(raw json.RawMessage) harn.Result {
	var c c02Case
	if err := json.Unmarshal(raw, &c); err != nil {
		panic(err)
	}
	res := harn.Result{Stats: map[string]int64{}}
	ds.VerifRollHook, ds.VerifStepHook = nil, nil
	p := printerFor(c.Variant)
	if c.Variant%8 >= 4 {
		// redundant parentheses around every operator / ternary / call / index sub-expression
		for _, prog := range c.Progs {
			for _, st := range prog {
				addParens(st, true)
			}
		}
	}
	cfg := drv.Cfg{OpLimit: 20000, IgnoreDiv0: c.Div0, Min: c.Dice == -1, Max: c.Dice == 1}
	vm := drv.NewVM(cfg)
	it := &Interp{IgnoreDiv0: c.Div0, DiceMode: c.Dice, MaxSteps: 20000, P: p}
	fr := &Frame{Scope: NewScope()}
	var srcs []string
	for i, prog := range c.Progs {
		src := p.Program(prog)
		srcs = append(srcs, src)
		viol := func(sig, what string) {
			if len(res.Violations) < 1 {
				res.Violations = append(res.Violations, harn.Violation{Signature: sig, What: fmt.Sprintf("programs %q, at #%d: %s", srcs, i, what)})
			}
		}
		it.Steps = 0
		// the reference commits effects up to the failing statement
		wv, werr := it.Run(fr, prog)
		if werr != nil && strings.Contains(werr.Error(), "reference") {
			res.Outcome = "outside-domain"
			return res // outside the reference's domain (budget / depth): not a case
		}
		var gerr error
		site, pn := harn.Guard(func() { gerr = vm.Run(src) })
		if pn {
			viol(site, "panic")
			return res
		}
		if gerr == nil && vm.RestInput != "" {
			viol("C02:program-not-consumed", fmt.Sprintf("the printed program is cut: rest %q (value %s; reference value %s)", vm.RestInput, drv.Canon(vm.Ret), Canon(wv)))
			return res
		}
		if (gerr != nil) != (werr != nil) {
			if gerr != nil {
				viol("C02:error-vs-value", fmt.Sprintf("implementation fails (%s) but the semantics give %s", strings.SplitN(gerr.Error(), "\n", 2)[0], Canon(wv)))
			} else {
				viol("C02:value-vs-error", fmt.Sprintf("implementation returns %s but the semantics give an error (%v)", drv.Canon(vm.Ret), werr))
			}
			return res
		}
		if gerr == nil {
			if g, w := drv.Canon(vm.Ret), Canon(wv); g != w {
				viol("C02:value", fmt.Sprintf("implementation returns %s, the semantics give %s", g, w))
				return res
			}
			res.Nontrivial = true
		}
		if g, w := drv.CanonAttrs(vm.Attrs), CanonScope(fr.Scope); g != w {
			viol("C02:variables", fmt.Sprintf("variables afterwards: implementation %s, semantics %s", g, w))
			return res
		}
		if gerr != nil {
			res.Outcome = "error"
		} else if res.Outcome == "" {
			res.Outcome = "value"
		}
	}
	return res
}

func init() {
	harn.Register(&harn.Check{
		ID:   "C02",
		Rule: "programs are generated as grammar-shaped ASTs, printed with exactly the parentheses the published precedence requires in 4 spacing / line-break variants, and evaluated by the real VM and by an independent tree-walking reference interpreter (package ref); strata, each enumerated completely within its bound: A every binary / unary operator, builtin, method, index and slice form x 12 operand kinds; ranges and repeats around the 512 limit; B every ordered operator pair in both tree shapes and with unary / ternary neighbours, operator triples in 5 shapes; C ternary / multi-way / || / && / ?? compositions to depth 2; D all programs of <= 2 simple statements, every compound statement (if / else / else-if / while with break / continue / return bodies of <= 2 statements) alone, combined with every simple statement, and nested in while / if / function / template; E functions (14 bodies x arities x arguments, dynamic scope, this.x, recursion, aliasing of arguments) and computed values (8 expressions x 11 uses incl. attributes, raw loads, shadowing, calls); F every sequence of <= 2 (thorough 3) container operations over two aliased variables in 4 initial shapes; G every ordered pair (thorough: triples) of 21 programs on one VM incl. failing ones; H IgnoreDiv0 and dice terms under min / max mode. Oracle: same error-ness, structurally equal value (int/float distinguished), equal variables after every program. Non-trivial = the implementation returned a value; distinct by AST.",
		Assume: []string{"errors are compared by existence, not text; integer overflow, float printing beyond short decimals, side effects in the right operand of &&, dict iteration order and index / attribute / slice assignment used as a value are outside the alphabet (undefined by docs)"},
		Enumerate: c02Enumerate,
		Run:       c02Run,
		Budget:    map[string]time.Duration{"quick": 400 * time.Second, "thorough": 40 * time.Minute},
	})
}
