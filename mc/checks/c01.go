package checks

import (
	"encoding/json"
	"fmt"
	"strings"
	"time"

	ds "github.com/sealdice/dicescript"
	"golang.org/x/exp/rand"
	"verifmc/drv"
	"verifmc/gen"
	"verifmc/harn"
)

// C01 — totality of the public API.

type c01Case struct {
	Pre  string   `json:",omitempty"` // run first with everything enabled (defines named values)
	Srcs []string // evaluated in order on one VM under Cfg
	Cfg  drv.Cfg
}

var stepCount, rollCount int64

func installMeter() {
	ds.VerifStepHook = func(ctx *ds.Context, pc, top, bd, fd, dd, nd int) { stepCount++ }
	ds.VerifRollHook = func(src *rand.PCGSource, sides ds.IntType) (ds.IntType, bool) { rollCount++; return 0, false }
}

func budgeted(c drv.Cfg) drv.Cfg {
	c.OpLimit = 30000
	c.ParseLimit = 10000000
	return c
}

func c01Configs() []drv.Cfg {
	on := drv.AllOn()
	off := drv.Cfg{}
	strict := drv.AllOn()
	strict.NoStmts, strict.NoNDice, strict.NoBitwise = true, true, true
	div0 := drv.AllOn()
	div0.IgnoreDiv0 = true
	min := drv.AllOn()
	min.Min = true
	max := drv.AllOn()
	max.Max = true
	max.DefExpr = "2+3"
	small := drv.AllOn()
	small.OpLimit, small.ParseLimit = 200, 20000
	return []drv.Cfg{budgeted(on), budgeted(off), budgeted(strict), budgeted(div0), budgeted(min), budgeted(max), small}
}

// c01Hooked: cfgs[0] plus every host extension point installed as an observer / identity (drv.InstallNoopHooks).
func c01Hooked() drv.Cfg {
	c := budgeted(drv.AllOn())
	c.Hooks = true
	return c
}

func mayLoop(s string) bool {
	return strings.Contains(s, "while") || strings.Contains(s, "func") || strings.Contains(s, "&") || strings.Contains(s, "^st")
}

func c01Enumerate(tier string, seed int64, emit func(string, any)) {
	cfgs := c01Configs()
	thorough := tier == "thorough"
	unb := drv.AllOn() // no budget at all
	one := func(stratum, src string, cs []drv.Cfg) {
		for _, c := range cs {
			emit(stratum, c01Case{Srcs: []string{src}, Cfg: c})
		}
		if !mayLoop(src) {
			emit(stratum, c01Case{Srcs: []string{src}, Cfg: unb})
		}
	}
	// (i) token strings
	two := cfgs[:2]
	hooked := c01Hooked()
	gen.StringsUpTo(gen.TokensFull, 2, func(s string) { one("tokens<=2/full", s, append(cfgs[:len(cfgs):len(cfgs)], hooked)) })
	if thorough {
		gen.Strings(gen.TokensFull, 3, func(s string) { one("tokens=3/full", s, two) })
		gen.Strings(gen.TokensTiny, 4, func(s string) { one("tokens=4/tiny", s, two[:1]) })
	} else {
		gen.Strings(gen.TokensCore, 3, func(s string) { one("tokens=3/core", s, two[:1]) })
	}
	// (i') raw bytes: every byte string of length <= 2 over all 256 byte values, and length 3 over a reduced byte set
	bcfg := []drv.Cfg{cfgs[0]}
	for a := 0; a < 256; a++ {
		emit("bytes<=2", c01Case{Srcs: []string{string([]byte{byte(a)})}, Cfg: cfgs[0]})
		for b := 0; b < 256; b++ {
			emit("bytes<=2", c01Case{Srcs: []string{string([]byte{byte(a), byte(b)})}, Cfg: cfgs[0]})
		}
	}
	if thorough {
		set := []byte{0, 9, 10, 13, 30, ' ', '"', '\'', '(', ')', '*', '+', ',', '-', '.', '/', '1', ':', ';', '=', '?', '[', '\\', ']', '^', '`', 'a', 'd', '{', '|', '}', 0x7f, 0x80, 0xc3, 0xe4, 0xf0, 0xff}
		for _, a := range set {
			for _, b := range set {
				for _, c := range set {
					one("bytes=3", string([]byte{a, b, c}), bcfg)
				}
			}
		}
	}
	// (ii) typed-operand matrix (named values from the prelude)
	mcfg := cfgs
	if !thorough {
		mcfg = []drv.Cfg{cfgs[0], cfgs[6]}
	}
	mcfg = append(mcfg[:len(mcfg):len(mcfg)], hooked)
	gen.Matrix(func(s string) {
		for _, c := range mcfg {
			emit("matrix", c01Case{Pre: gen.Prelude, Srcs: []string{s}, Cfg: c})
		}
	})
	// (ii') host-supplied values (GlobalValueLoadFunc table: never-compiled computed values and functions, a
	// self-referential one, bodies that are not valid syntax, native object / function), with observers installed
	host := hooked
	host.Host, host.OpLimit = true, 3000
	gen.MatrixOver(drv.HostValues, append(gen.ValuesSmall[:len(gen.ValuesSmall):len(gen.ValuesSmall)], "gc", "gf", "gn"), func(s string) {
		emit("host values", c01Case{Pre: gen.Prelude, Srcs: []string{s, s}, Cfg: host})
	})
	// (iii) ladders
	// ladders: parser memory is proportional to the parse budget (~100 B per expression, memoisation),
	// so the long-input ladders run under a 10^6 parse budget to stay inside the worker's address-space limit
	lad0, lad5 := cfgs[0], cfgs[5]
	lad0.ParseLimit, lad5.ParseLimit = 1000000, 1000000
	gen.Ladders(thorough, func(s string) {
		for _, c := range []drv.Cfg{lad0, lad5, cfgs[6]} {
			emit("ladders", c01Case{Srcs: []string{s}, Cfg: c})
		}
	})
	// (iv) every construct of the construct-covering pool inside every kind of sub-evaluation
	for _, p := range append(c03Programs[:len(c03Programs):len(c03Programs)], "2d", "d", "d优势", "2d + d", "3dk2", "[2d, d]", "`{2d}`", "技能 + 2d") {
		if strings.HasPrefix(p, "^st") || strings.HasPrefix(p, "//") {
			continue
		}
		const pad = "0; 0; 0; 0; 0; 0; 0; 0; 0; 0; 0; 0; "
		ctxs := [][]string{
			// defined by one run, used by a later, much shorter one on the same VM (the body runs from its precompiled form)
			{"func g(){ " + pad + p + " }", "g()", "g() + 0"},
			{"func g(){ " + pad + p + " }; func h(){ g() }", "h()"},
			{"&c = " + p, "c", "c"},
			{"x9 = 1", "func g(){ " + pad + p + " }; &c = g()", "c", "[c]"},
			{"func g(){ " + p + " }; g()", "g()", "g()"},
			{"func g(q1){ " + p + " }; [g(1), g(2)]"},
			{"&c = " + p + "; c", "c", "c + c"},
			{"`{" + p + "}`"}, {"`{% " + p + " %}`"}, {"\x1e{" + p + "}\x1e"},
			{"while 1 { " + p + "; break }"}, {"if 1 { " + p + " }"}, {"i = 0; while i < 3 { i = i + 1; " + p + " }"},
			{"[" + p + "]"}, {"xf(" + p + ")"}, {"1 ? (" + p + ") : 2"},
		}
		for _, srcs := range ctxs {
			for _, c := range []drv.Cfg{cfgs[0], cfgs[4], cfgs[5], hooked} {
				emit("contexts", c01Case{Pre: c03Prelude, Srcs: srcs, Cfg: c})
			}
		}
		d := cfgs[0]
		d.DefExpr = p
		for _, src := range []string{"2d", "d", "func g(){ 2d }; g()", "&c = d; c + c"} {
			emit("contexts", c01Case{Pre: c03Prelude, Srcs: []string{src, src}, Cfg: d})
		}
	}
	// (iii') the same DAG built one level per run on one VM (the value is prior state of the last run, which only prints it)
	for _, n := range []int{5, 18, 30, 45} {
		for _, step := range []string{"a = [a, a]", "a = {'x': a, 'y': a}", "b = a; a = [a, b, 1]"} {
			srcs := []string{"a = [1]"}
			for i := 0; i < n; i++ {
				srcs = append(srcs, step)
			}
			srcs = append(srcs, "a", "`{a}`", "[a, a] == [a, a]")
			emit("ladders", c01Case{Srcs: srcs, Cfg: lad0})
		}
	}
	// (iv') the valid-program x separator x broken-tail grid of C03 (abandoned alternatives leave parse-time state behind)
	for _, p := range c03Programs {
		for _, sep := range []string{"", " "} {
			for _, t := range c03Tails {
				emit("program+tail", c01Case{Pre: c03Prelude, Srcs: []string{p + sep + t}, Cfg: cfgs[0]})
				if sep == "" {
					emit("program+tail", c01Case{Pre: c03Prelude, Srcs: []string{p + sep + t}, Cfg: hooked})
				}
			}
			for _, t := range c03CompoundTails {
				emit("program+tail", c01Case{Pre: c03Prelude, Srcs: []string{p + sep + t}, Cfg: cfgs[0]})
			}
		}
	}
	// (iv'') the control-flow program family (every compound statement, break / continue / return placements, template blocks in loops)
	gen.ControlFlow(thorough, func(s string) {
		emit("control-flow", c01Case{Srcs: []string{s, s}, Cfg: cfgs[0]})
	})
	// (iv''') exploding / unbounded programs under EVERY budget 1..48 (the exact value at which the counter meets the budget matters)
	for _, src := range []string{"5a2m2", "5c2m2", "1a2m4611686018427387904", "3c2m4611686018427387904", "20a2", "2a10 + 2c10", "i=0; while 1 { i = i + 1 }", "func g(n){ g(n+1) }; g(0)", "&a = a + 1; a", "x='a'; while 1 { x = x + x }"} {
		for b := int64(1); b <= 48; b++ {
			for _, max := range []bool{false, true} {
				c := drv.AllOn()
				c.OpLimit, c.ParseLimit, c.Max = b, 100000, max
				emit("budget sweep 1..48", c01Case{Srcs: []string{src}, Cfg: c})
			}
		}
	}
	// (v) histories: ordered pairs on one VM
	gen.Histories(func(a, b string) {
		emit("histories", c01Case{Srcs: []string{a, b}, Cfg: cfgs[0]})
		if thorough || (len(a)+len(b))%2 == 0 {
			emit("histories", c01Case{Srcs: []string{a, b}, Cfg: hooked})
		}
		if thorough {
			emit("histories", c01Case{Srcs: []string{a, b}, Cfg: cfgs[4]})
		}
	})
	// flag cube x one-hole matrix (thorough)
	if thorough {
		for bits := 0; bits < 128; bits++ {
			c := drv.Cfg{WoD: bits&1 != 0, CoC: bits&2 != 0, Fate: bits&4 != 0, DC: bits&8 != 0, NoBitwise: bits&16 != 0, NoStmts: bits&32 != 0, NoNDice: bits&64 != 0}
			for mode := 0; mode < 3; mode++ {
				cc := budgeted(c)
				cc.Min, cc.Max = mode == 1, mode == 2
				gen.MatrixSmall(func(s string) { emit("flagcube", c01Case{Pre: gen.Prelude, Srcs: []string{s}, Cfg: cc}) })
			}
		}
	}
}

func c01Run(raw json.RawMessage) harn.Result {
	var c c01Case
	if err := json.Unmarshal(raw, &c); err != nil {
		panic(err)
	}
	installMeter()
	res := harn.Result{Stats: map[string]int64{}}
	var vm *ds.Context
	if c.Pre != "" {
		vm = drv.NewVM(drv.AllOn())
		if err := vm.Run(c.Pre); err != nil {
			panic("prelude failed: " + err.Error())
		}
		c.Cfg.Apply(vm)
	} else {
		vm = drv.NewVM(c.Cfg)
	}
	for i, src := range c.Srcs {
		stepCount, rollCount = 0, 0
		o := drv.Eval(vm, src, true)
		res.Stats["steps"] += stepCount
		res.Stats["rolls"] += rollCount
		switch {
		case o.Panic != "":
			res.Outcome = "panic"
			res.Violations = append(res.Violations, harn.Violation{
				Signature: o.Panic,
				What:      fmt.Sprintf("Go panic escaped from %s on input #%d %q (cfg %s)", o.PanicAt, i, src, c.Cfg),
			})
			return res
		case o.ParseErr:
			res.Outcome = "parse-error"
		case o.Err != "":
			res.Outcome = "run-error"
		default:
			res.Outcome = "value"
		}
		if !o.ParseErr && stepCount >= 2 {
			res.Nontrivial = true
		}
	}
	return res
}

func init() {
	harn.Register(&harn.Check{
		ID:   "C01",
		Rule: "inputs: every token string up to the stated length over the stated alphabets, the typed-operand matrix (every operand slot x value kinds), nesting/length/size ladders and ordered pairs of state-leaving programs, each under the listed configurations; oracle: Parse, RunAfterParsed (twice), GetDetailText x2, GetAsmText, result printing, Matched/RestInput, GetCurSeed return without a Go panic, fatal runtime error, OOM or watchdog hang. A case is non-trivial when its last input parses and dispatches >= 2 VM instructions; cases are distinct by (sources, configuration).",
		Assume: []string{
			"hang = a single case running longer than 60 s (median case < 1 ms); memory exhaustion = worker exceeding RLIMIT_AS 3 GiB or 2 GiB heap",
			"unbudgeted configuration is only applied to sources that cannot loop or recurse (the property promises resource safety only under a budget)",
		},
		Enumerate:   c01Enumerate,
		Run:         c01Run,
		CaseTimeout: 60 * time.Second,
		Budget:      map[string]time.Duration{"quick": 400 * time.Second, "thorough": 40 * time.Minute},
	})
}
