package checks

import (
	"encoding/json"
	"fmt"
	"regexp"
	"strconv"
	"strings"
	"time"
	"unicode/utf8"

	ds "github.com/sealdice/dicescript"
	"verifmc/drv"
	"verifmc/gen"
	"verifmc/harn"
)

// C19 — syntax errors point at the right place in the chosen language
// (sequential part; the cross-VM part is explored by the scheduler in C19's
// concurrent stratum, see c19_conc.go).

type c19Case struct {
	Src  string
	Lang int
	Conc *c19Conc `json:",omitempty"`
	// Global: the host has called the package-level SetParseErrorLanguage(Global) (the VM's own setting must still win)
	Global int `json:",omitempty"`
	// Custom: the VM has host-registered custom dice whose text is multi-byte / spans a line break (regex 暗骰(\d+), E(\d+);
	// stream parser for M<LF><digits>)
	Custom bool `json:",omitempty"`
	// Then: inputs parsed on the SAME VM after Src was rejected; the error object of Src is rendered again afterwards and must
	// read exactly as it did at first
	Then []string `json:",omitempty"`
	// Lazy: Src is not the input but the body of a value that is compiled when it is first used ("computed": a never-compiled
	// computed value object shared by the VMs; "def": DefaultDiceSideExpr of one VM). It is used under Lang, then under Lang2,
	// then under Lang again: every error is in the language of the VM that reports it
	Lazy  string `json:",omitempty"`
	Lang2 int    `json:",omitempty"`
}

var errTokens = []string{
	"1", "x", "技", "+", "*", "(", ")", "[", "]", "{", "}", "'", "\"", "`", "\n", "\r\n", "\t", " ",
	"if ", "while ", "=", ",", "😀", "é", "\xff", ".", ":", "?", "&", "break", "^st", "d", "else ", "continue", "%",
}

var errPrefixes = []string{"", "\n", "\n\n  ", strings.Repeat("1+", 35), strings.Repeat("技能+", 15), "x=1;\r\n", "\ufeff", "\ufeff\n"}

func c19Enumerate(tier string, seed int64, emit func(string, any)) {
	thorough := tier == "thorough"
	n := 3
	one := func(s string) {
		for lang := 0; lang < 3; lang++ {
			emit("sequential", c19Case{Src: s, Lang: lang})
		}
	}
	gen.StringsUpTo(errTokens, 2, func(s string) {
		for _, p := range errPrefixes {
			one(p + s)
		}
	})
	gen.Strings(errTokens, n, func(s string) {
		one(s)
		if thorough {
			for _, p := range errPrefixes[1:] {
				one(p + s)
			}
		} else {
			one(errPrefixes[1+len(s)%7] + s)
		}
	})
	if thorough {
		gen.Strings(errTokens[:24], 4, func(s string) { one(s) })
	}
	// the package-level selector set by the host to either language: every VM setting still decides its own messages
	gen.StringsUpTo(errTokens, 2, func(s string) {
		for lang := 0; lang < 3; lang++ {
			for g := 1; g <= 2; g++ {
				emit("sequential/package-level selector set", c19Case{Src: s, Lang: lang, Global: g})
			}
		}
	})
	// an error object that is kept while the VM goes on parsing other inputs (longer, shorter, multi-line, accepted, rejected)
	gen.StringsUpTo(errTokens, 2, func(s string) {
		for lang := 0; lang < 3; lang++ {
			for _, pre := range []string{"(1 +\n", "[技能,\n  "} { // an opening bracket: the input is rejected unless the tokens close it
				emit("sequential/error rendered after later parses on the same VM", c19Case{Src: pre + s, Lang: lang, Then: []string{"7", "(\n\n(", strings.Repeat("技能 + ", 12) + ")", ""}})
			}
		}
	})
	// syntax errors inside bodies that are compiled lazily, read under one language and then under another
	gen.StringsUpTo(errTokens, 2, func(s string) {
		for _, pre := range []string{"(1 +\n", "[技能, "} {
			for _, l := range [][2]int{{1, 2}, {2, 1}, {0, 2}, {1, 0}} {
				for _, kind := range []string{"computed", "def"} {
					emit("sequential/lazily compiled body under two languages", c19Case{Src: pre + s, Lang: l[0], Lang2: l[1], Lazy: kind})
				}
			}
		}
	})
	// host-registered custom dice in front of the error position
	for _, pre := range []string{"", "(1+", "[", "(1 +\n ", "1 + ", "x = ", "`{", "技能 + ", "\n\n", "[1, ", "xf(", "{'k': "} {
		for _, op := range []string{"暗骰6", "暗骰66", "E5", "M\n6", "暗骰6\n", "(暗骰6)", "暗骰6 + M\n7"} {
			for _, tail := range []string{" + ", " +* 2", ")", "]", ",", " ? ", "'abc", " (", "\n+ (", " + [1,", "}", " x y"} {
				for lang := 0; lang < 3; lang++ {
					emit("sequential/custom dice before the error", c19Case{Src: pre + op + tail, Lang: lang, Custom: true})
				}
			}
		}
	}
	c19ConcEnumerate(tier, emit)
}

var reHeader = regexp.MustCompile(`^(\d+):(\d+) \((\d+)\): (.*)$`)
var reFooter = regexp.MustCompile(`^  (位置|Pos) (\d+):(\d+) - (.*)$`)

func hasCJK(s string) bool {
	for _, r := range s {
		if r >= 0x4E00 && r <= 0x9FFF {
			return true
		}
	}
	return false
}

var englishWords = regexp.MustCompile(`Syntax Error|Pos \d|Empty input|cannot start|Missing closing|Unclosed string|expected after|Incomplete expression|Unexpected character|Syntax error|not allowed|invalid if syntax|must contain a statement block|keyword is used`)

// lineCol recomputes (line, col) of a byte offset: line = 1 + newlines before it,
// col = 1 + runes since the last newline.
func lineCol(input string, off int) (int, int) {
	line, col := 1, 1
	for i := 0; i < off && i < len(input); {
		r, sz := utf8.DecodeRuneInString(input[i:])
		if r == '\n' {
			line++
			col = 1
		} else {
			col++
		}
		i += sz
	}
	return line, col
}

// checkSyntaxError validates one error text; quoted = text quoted from the input itself (excluded from the language test).
func checkSyntaxError(src string, lang int, msg string) (sig, what string) {
	lines := strings.Split(msg, "\n")
	m := reHeader.FindStringSubmatch(lines[0])
	if m == nil {
		return "C19:unparsable-header", fmt.Sprintf("first line %q has no line:col (offset) header", lines[0])
	}
	friendly := strings.HasPrefix(m[4], "语法错误") || strings.HasPrefix(m[4], "Syntax Error")
	if !friendly {
		// rule-specific messages: one "L:C (off): rule X: text" per line
		for _, ln := range lines {
			mm := reHeader.FindStringSubmatch(ln)
			if mm == nil {
				return "C19:unparsable-header", fmt.Sprintf("line %q has no header", ln)
			}
			l, _ := strconv.Atoi(mm[1])
			c, _ := strconv.Atoi(mm[2])
			off, _ := strconv.Atoi(mm[3])
			if off < 0 || off > len(src) {
				return "C19:offset-outside-input", fmt.Sprintf("offset %d outside input of %d bytes", off, len(src))
			}
			wl, wc := lineCol(src, off)
			rule := "?"
			if i := strings.Index(mm[4], "rule "); i >= 0 {
				rule = strings.SplitN(mm[4][i+5:], ":", 2)[0]
			}
			if l != wl || c != wc {
				kind := "other"
				if off < len(src) && src[off] == '\n' && l == wl+1 && c == 0 {
					kind = "newline-reported-as-next-line-col-0"
				}
				return "C19:position:" + kind, fmt.Sprintf("message %q: offset %d is line %d col %d, reported %d:%d", ln, off, wl, wc, l, c)
			}
			text := mm[4]
			if (lang == 1 && englishWords.MatchString(text)) || (lang == 2 && hasCJK(text)) {
				return "C19:rule-message-ignores-language:" + rule, fmt.Sprintf("language %d but message is %q", lang, text)
			}
			if lang == 0 && !(hasCJK(text) && englishWords.MatchString(text)) {
				return "C19:rule-message-ignores-language:" + rule, fmt.Sprintf("bilingual setting but message is %q", text)
			}
		}
		return "", ""
	}
	l, _ := strconv.Atoi(m[1])
	c, _ := strconv.Atoi(m[2])
	off, _ := strconv.Atoi(m[3])
	if off < 0 || off > len(src) {
		return "C19:offset-outside-input", fmt.Sprintf("offset %d outside input of %d bytes", off, len(src))
	}
	wl, wc := lineCol(src, off)
	quirk := ""
	if l != wl || c != wc {
		if off < len(src) && src[off] == '\n' && l == wl+1 && c == 0 {
			// the known finding: an error AT a line break is labelled (next line, column 0). The rest of the message is still
			// checked, against the position it reports (quoted line = the reported line, caret at the line start), so that
			// the finding does not hide other changes to such messages
			quirk = fmt.Sprintf("offset %d is line %d col %d, reported %d:%d", off, wl, wc, l, c)
			wl, wc = l, 1
		} else {
			return "C19:position:other", fmt.Sprintf("offset %d is line %d col %d, reported %d:%d", off, wl, wc, l, c)
		}
	}
	defer func() {
		if sig == "" && quirk != "" {
			sig, what = "C19:position:newline-reported-as-next-line-col-0", quirk
		}
	}()
	title := m[4]
	wantTitle := []string{"语法错误 Syntax Error", "语法错误", "Syntax Error"}[lang]
	if title != wantTitle {
		return "C19:language", fmt.Sprintf("language %d: title %q, expected %q", lang, title, wantTitle)
	}
	rest := lines[1:]
	if len(src) > 0 {
		if len(rest) < 4 || rest[0] != "  |" {
			return "C19:frame", "missing source frame"
		}
		// the quoted line may itself contain newlines? no: it is one line of the input
		srcLines := strings.Split(src, "\n")
		wantLine := srcLines[wl-1]
		if len(wantLine) > 60 {
			wantLine = wantLine[:57] + "..."
		}
		// a quoted line containing '\r' is printed verbatim
		quoted := rest[1]
		if quoted != "  |  "+wantLine {
			return "C19:quoted-line", fmt.Sprintf("quoted %q, line %d of the input is %q", quoted, wl, wantLine)
		}
		wantCaret := "  |  " + strings.Repeat(" ", wc-1) + "^"
		if rest[2] != wantCaret {
			return "C19:caret", fmt.Sprintf("caret line %q, expected the caret under column %d", rest[2], wc)
		}
		if rest[3] != "  |" {
			return "C19:frame", "missing frame end"
		}
		rest = rest[4:]
	}
	if quirk != "" {
		// such messages name the offending character, here the line break itself, which breaks the footer line in two
		var joined []string
		for _, f := range rest {
			if len(joined) > 0 && !reFooter.MatchString(f) {
				joined[len(joined)-1] += "\\n" + f
			} else {
				joined = append(joined, f)
			}
		}
		rest = joined
	}
	wantFoot := []int{2, 1, 1}[lang]
	if len(rest) != wantFoot {
		return "C19:language", fmt.Sprintf("language %d: %d footer lines %q", lang, len(rest), rest)
	}
	for i, f := range rest {
		fm := reFooter.FindStringSubmatch(f)
		if fm == nil {
			return "C19:footer", fmt.Sprintf("footer %q unparsable", f)
		}
		fl, _ := strconv.Atoi(fm[2])
		fc, _ := strconv.Atoi(fm[3])
		if fl != l || fc != c {
			return "C19:footer-position", fmt.Sprintf("footer says %d:%d, header %d:%d", fl, fc, l, c)
		}
		wantTag := "位置"
		if lang == 2 || (lang == 0 && i == 1) {
			wantTag = "Pos"
		}
		if fm[1] != wantTag {
			return "C19:language", fmt.Sprintf("language %d: footer %q", lang, f)
		}
		// message text: strip quoted characters ('%c' from the input) before the language test
		text := regexp.MustCompile(`'.'`).ReplaceAllString(fm[4], "")
		if wantTag == "Pos" && hasCJK(text) {
			return "C19:language", fmt.Sprintf("English footer contains CJK: %q", f)
		}
		if wantTag == "位置" && !hasCJK(text) {
			return "C19:language", fmt.Sprintf("Chinese footer has no Chinese text: %q", f)
		}
	}
	return "", ""
}

func c19Run(raw json.RawMessage) harn.Result {
	var c c19Case
	if err := json.Unmarshal(raw, &c); err != nil {
		panic(err)
	}
	if c.Conc != nil {
		return c19ConcRun(c)
	}
	res := harn.Result{Stats: map[string]int64{}}
	if c.Lazy != "" {
		res.Nontrivial = true
		res.Outcome = "rejected"
		cv := ds.NewComputedVal(c.Src)
		bud := drv.AllOn()
		bud.OpLimit, bud.ParseLimit = 2000, 100000 // (an acceptable body may well loop)
		one := drv.NewVM(bud)
		for step, lang := range []int{c.Lang, c.Lang2, c.Lang} {
			var vm *ds.Context
			use := "lz + 1"
			if c.Lazy == "computed" {
				vm = drv.NewVM(bud) // a VM of its own per step, sharing the value object
				vm.Attrs.Store("lz", cv)
			} else {
				vm = one // one VM whose language is switched between the steps
				vm.Config.DefaultDiceSideExpr = c.Src
				use = "2d + 1"
			}
			vm.Config.ParseErrorLanguage = lang
			var err error
			if site, p := harn.Guard(func() { err = vm.Run(use) }); p {
				res.Violations = append(res.Violations, harn.Violation{Signature: site, What: fmt.Sprintf("panic using a value with the body %q", c.Src)})
				return res
			}
			if err == nil || !drv.IsSyntaxError(err) {
				res.Outcome = "accepted"
				return res // the body is acceptable (or fails for another reason): not a case
			}
			if sig, what := checkSyntaxError(c.Src, lang, err.Error()); sig != "" && sig != "C19:position:newline-reported-as-next-line-col-0" {
				res.Violations = append(res.Violations, harn.Violation{Signature: sig, What: fmt.Sprintf("lazily compiled body %q (%s), use #%d under language %d (languages %d, %d, %d): %s\n--- message ---\n%s", c.Src, c.Lazy, step, lang, c.Lang, c.Lang2, c.Lang, what, err.Error())})
				return res
			}
		}
		return res
	}
	cfg := drv.AllOn()
	cfg.Lang = c.Lang
	vm := drv.NewVM(cfg)
	if c.Global != 0 {
		ds.SetParseErrorLanguage(c.Global)
		defer ds.SetParseErrorLanguage(0)
	}
	if c.Custom {
		five := func(ctx *ds.Context, groups []string, payload any) (*ds.VMValue, string, error) { return ds.NewIntVal(5), "", nil }
		_ = vm.RegCustomDice(`暗骰(\d+)`, five)
		_ = vm.RegCustomDice(`E(\d+)`, five)
		_ = vm.RegCustomDiceParser(func(ctx *ds.Context, st *ds.CustomDiceStream) (*ds.CustomDiceParseResult, error) {
			if r, ok := st.Read(); !ok || r != 'M' {
				st.ResetAttempt()
				return &ds.CustomDiceParseResult{Matched: false}, nil
			}
			if r, ok := st.Read(); !ok || r != '\n' {
				st.ResetAttempt()
				return &ds.CustomDiceParseResult{Matched: false}, nil
			}
			if _, ok := st.ReadDigits(); !ok {
				st.ResetAttempt()
				return &ds.CustomDiceParseResult{Matched: false}, nil
			}
			return &ds.CustomDiceParseResult{Matched: true}, nil
		}, five)
	}
	var err error
	if site, p := harn.Guard(func() { err = vm.Parse(c.Src) }); p {
		res.Violations = append(res.Violations, harn.Violation{Signature: site, What: fmt.Sprintf("panic parsing %q", c.Src)})
		return res
	}
	if err == nil {
		res.Outcome = "accepted"
		return res
	}
	res.Nontrivial = true
	res.Outcome = "rejected"
	msg := err.Error()
	if len(c.Then) > 0 {
		for _, t := range c.Then {
			if site, p := harn.Guard(func() { _ = vm.Run(t) }); p {
				res.Violations = append(res.Violations, harn.Violation{Signature: site, What: fmt.Sprintf("panic parsing %q after %q", t, c.Src)})
				return res
			}
		}
		if again := err.Error(); again != msg {
			res.Violations = append(res.Violations, harn.Violation{Signature: "C19:held-error-changes", What: fmt.Sprintf("input %q lang=%d: the error read\n%s\nwhen it was returned and\n%s\nafter the VM had parsed %q", c.Src, c.Lang, msg, again, c.Then)})
			return res
		}
	}
	if strings.Contains(msg, "语法错误") || strings.Contains(msg, "Syntax Error") {
		res.Stats["friendly_errors"]++
	} else {
		res.Stats["rule_specific_errors"]++
	}
	if sig, what := checkSyntaxError(c.Src, c.Lang, msg); sig != "" {
		res.Violations = append(res.Violations, harn.Violation{Signature: sig, What: fmt.Sprintf("input %q lang=%d: %s\n--- message ---\n%s", c.Src, c.Lang, what, msg)})
	}
	_ = ds.ParseErrorLanguageEnglish
	return res
}

func init() {
	harn.Register(&harn.Check{
		ID:   "C19",
		Rule: "inputs: every token string up to the stated length over an alphabet rich in newlines, CRLF, tabs, 1-4 byte runes, an invalid byte, brackets, quotes and keywords, each also behind multi-line / long-line / CJK prefixes, x the three language settings; the rejected ones are the cases. Oracle: the error text is parsed; offset within the input; (line, col) recomputed from the bytes; quoted line = that line (or its 57-byte truncation); caret under that column; header and footer agree; only the configured language(s) appear. Concurrent stratum: 2-3 VMs with different language settings parsing rejected inputs under every schedule (preemption-bounded) at the hooked accesses to the shared language selector; each VM's message must equal its isolated message. Non-trivial = rejected input; distinct by (input, language).",
		Enumerate: c19Enumerate,
		Run:       c19Run,
		Budget:    map[string]time.Duration{"quick": 400 * time.Second, "thorough": 30 * time.Minute},
	})
}
