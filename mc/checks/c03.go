package checks

import (
	"encoding/json"
	"fmt"
	"strings"
	"time"
	"unicode"

	ds "github.com/sealdice/dicescript"
	"golang.org/x/exp/rand"
	"verifmc/drv"
	"verifmc/gen"
	"verifmc/harn"
)

// C03 — the result belongs to the consumed text. Differential oracle: run the
// full input, then run Matched alone on a VM in the same prior state with the
// same die answers; everything observable must coincide.

type c03Case struct {
	Src string
	Cfg drv.Cfg
}

var c03Programs = []string{
	"5", "1.5", "'s'", "\"s\"", "`a{1}b`", "null", "true", "x", "&xc", "this.x", "[1,2]", "[1..3]", "[]", "{}", "{'a':1}", "{a:1,}",
	"(1+2)", "-x", "1+2*3", "x ?? 2", "x == 2", "x > 1 ? 'a' : 'b'", "x > 5 ? 'a', 1 ? 'c'", "x > 1 ? 'a', 1 ? 'c'", "1 ? 7, 1 ? 2", "0 || 3", "1 && 2", "1 & 3", "2 ** 3",
	"xa[0]", "xa[0:1]", "xa[:]", "xd.k", "xd['k']", "xf(1)", "ceil(1.5)", "xa.len()", "xa kh", "[1,2,3]kl2", "[2,3].sum()", "xs[1]", "(xa)[1]",
	"2d1", "d1", "2d", "d", "3d1k2", "2d1min1", "d1优势", "2d1d1", "(2d1)d1", "f", "b", "p1", "b2", "2a10", "a10", "2a10m1k1", "2c10", "2c10m1",
	"y = 5", "y = x + 1", "&y = x + 1", "&xc.q = 3", "this.y = 3", "xd.j = 4", "xa[0] = 9", "xa[0:1] = [7]", "xd['j'] = 2", "y = z = 3",
	"if x {y = 1}", "if 0 {1} else {y = 2}", "if 0 {} else if 1 {y = 3} else {y = 4}", "i = 0; while i < 2 {i = i + 1}", "while 0 {}", "func g(a){a+1}", "func g(){}; g()", "return 5",
	"while 0 {}; 0", "i = 0; while i < 2 { i = i + 1 }; i > 5", "if 1 {}; x", "if 0 {} else {}; 0", "func g(){}; 0", "1; 2", "1\n2", "y = 1; y + 1", "// c\n7", "// #EnableDice coc false\nb", "x;", "x ;", "^stA:5", "^stA5B6", "^stA+1", "^st&A=1d1", "^st'a b':3",
	"`{% y = 2 %}{y}`", "\x1e{x}\x1e", "''", "'a' + 'b'", "[x, 2d1]", "{'k': 2d1}", "xf(2d1)", "x + 2d1", "xc", "xc + 1", "load('x')", "store('y', 4)",
}

var c03Seps = []string{"", " ", ";", "\n", " ;\n"}

var c03Tails = []string{
	"'abc", "\"ab", "`x{1", "`x{1}", "\x1e x", "[1,", "[1..", "[1", "{'a':1", "{'a'", "{a", "(1+", "(", "gg(1,", "gg(", "x[", "x[1:", "x[1", "x.", "&y =", "&y", "if 1 {", "if 1",
	"while 1 { x", "func g(", "func g(){", "1 ?", "1 ? 2 :", "1 ? 2,", "2d", "2a", "b(", "//", "// #EnableDice coc", "^st", "1+", "-", "=", ")", "]", "}", "%}", "理由文本", "reason text",
	"? 2 ||", "? 2 || ", "? 1 : 2 ||", "? 2, 0 ? 3 ||", "|| 0 ||", "&& 1 ||", "kh", "k", ".5", ".x", "[0]", "[0:", "(1)", "* 2", "*", "? 1", "?? ", "|| ", "&& ", "& ", "| ", "==", "= 1", "d", "d6", "a10", "c3", "min", "优势", "else {}", "{", "..", ":", ",", ",1", "'", "\\", "\xff", "!= 0", "< 3",
}

var c03CompoundTails []string

// compound tails: a continuation token followed by something that breaks off (the abandoned alternative has
// already pushed parse-time state: counters, jump entries, code segments)
func init() {
	for _, op := range []string{",", ", 0 ?", ", 1 ?", "+", "||", "&&", "?", "? 1 :", "==", "=", ";", "\n", ".k = ", "[0] = ", "? 1, 0 ?"} {
		for _, br := range []string{"'abc", "[1,", "{'a':", "(1+", "`x{1", "func g(){", "&y = (", "if 1 {", "xf(", "1 ||",
			// a COMPLETE definition (its own code segment is pushed and popped) inside a construct that is never closed
			"`{&a=3+4", "{'k': &a = 9", "`{% func f(a){ a*2 }", "[&a = 1,"} {
			c03CompoundTails = append(c03CompoundTails, op+" "+br)
		}
	}
}

func c03Enumerate(tier string, seed int64, emit func(string, any)) {
	thorough := tier == "thorough"
	on := drv.AllOn()
	off := drv.Cfg{}
	strict := drv.AllOn()
	strict.NoStmts, strict.NoNDice, strict.NoBitwise = true, true, true
	cfgs := []drv.Cfg{on, off}
	if thorough {
		cfgs = append(cfgs, strict)
	}
	for _, p := range c03Programs {
		for si, sep := range c03Seps {
			for _, t := range c03Tails {
				for ci, c := range cfgs {
					if !thorough && ci > 0 && si >= 2 {
						continue // quick: the family-off configuration with the separators "" and " " only
					}
					emit("program+sep+tail", c03Case{Src: p + sep + t, Cfg: c})
				}
			}
		}
		for _, sep := range []string{"", " "} {
			for _, t := range c03CompoundTails {
				emit("program+compound tail", c03Case{Src: p + sep + t, Cfg: on})
			}
		}
		if thorough {
			for _, q := range c03Programs {
				emit("program+program", c03Case{Src: p + " " + q, Cfg: on})
				emit("program+program", c03Case{Src: p + q, Cfg: on})
			}
		}
	}
	// long valid programs (more instructions than any initial buffer size: 300 / 700 / 1500 terms or statements) in front of
	// tails that emit code before they break off
	for _, n := range []int{300, 700, 1500} {
		for _, p := range []string{"1" + strings.Repeat("+1", n), "0" + strings.Repeat("; 0", n) + "; 7", "[1" + strings.Repeat(",1", n/4) + "].len()", "&lc = 1" + strings.Repeat("+1", n) + "; lc", "func lf(){ 1" + strings.Repeat("+1", n) + " }; lf()"} {
			for _, t := range []string{" + 'abc", " + [1,", "; 'abc", " ||(", " && (1+", " ? 1 : 'x", ", 1 ? 'a", "\n`x{1", " + xf(", " == {'a':", " + `{&a=3+4", "; func g(){"} {
				emit("long program+tail", c03Case{Src: p + t, Cfg: on})
			}
		}
	}
	// identifiers and comments that end in every possible final UTF-8 byte (0x80..0xBF), alone and in front of a tail
	for k := 0; k < 64; k++ {
		id := "y" + string(rune(0x4E00+k))
		for _, t := range []string{"", " ", " (", " +", "\n", " // c" + string(rune(0x4E00+k))} {
			emit("identifier final byte", c03Case{Src: id + " = 7; 1 + " + id + t, Cfg: on})
			emit("identifier final byte", c03Case{Src: id + t, Cfg: on})
		}
	}
	alpha := gen.TokensCore
	gen.StringsUpTo(alpha, 3, func(s string) {
		emit("tokens<=3", c03Case{Src: s, Cfg: on})
	})
	if thorough {
		gen.Strings(gen.TokensTiny, 4, func(s string) { emit("tokens=4", c03Case{Src: s, Cfg: on}) })
		gen.Strings(gen.TokensFull, 3, func(s string) { emit("tokens=3/full", c03Case{Src: s, Cfg: on}) })
	}
}

const c03Prelude = "x = 2; xa = [1,2,3]; xd = {'k': 1}; xs = 'abc'; func xf(a){a}; &xc = x + 1"

type c03Obs struct {
	err      string
	ret      string
	detail   string
	attrs    string
	ops      []string
	draws    int
	matched  string
	rest     string
	calcFlag bool
	st       []string
}

func c03Eval(cfg drv.Cfg, src string, warm bool) (o c03Obs, panicSite string) {
	vm := drv.NewVM(drv.AllOn())
	if err := vm.Run(c03Prelude); err != nil {
		panic(err)
	}
	if warm {
		drv.WarmUp(vm) // both sides of the differential comparison start from the same well-used VM
	}
	cfg.Apply(vm)
	vm.Config.OpCountLimit = 4000 // 'while 1{}' is a legitimate endless program without a budget; with one it is an error on both sides
	vm.Config.CallbackSt = func(_type string, name string, val *ds.VMValue, extra *ds.VMValue, op string, detail string) {
		o.st = append(o.st, fmt.Sprintf("%s/%s/%s/%s/%s", _type, name, drv.Canon(val), op, strings.TrimSpace(detail)))
	}
	ds.VerifRollHook = func(s *rand.PCGSource, sides ds.IntType) (ds.IntType, bool) {
		o.draws++
		return ds.IntType((o.draws*7+3)%int(sides) + 1), true
	}
	ds.VerifStepHook = func(ctx *ds.Context, pc, top, bd, fd, dd, nd int) {
		if name := ds.VerifOpName(ctx.VerifOpAt(pc)); len(o.ops) < 5000 && name != "nop" {
			o.ops = append(o.ops, name) // nop has no observable effect (neutralised instructions of abandoned alternatives)
		}
	}
	defer func() { ds.VerifRollHook, ds.VerifStepHook = nil, nil }()
	site, p := harn.Guard(func() {
		if err := vm.Run(src); err != nil {
			o.err = err.Error()
			return
		}
		o.ret = drv.Canon(vm.Ret)
		o.detail = vm.GetDetailText()
		o.matched, o.rest = vm.Matched, vm.RestInput
		o.calcFlag = vm.IsCalculateExists()
	})
	if p {
		return o, site
	}
	o.attrs = drv.CanonAttrs(vm.Attrs)
	return o, ""
}

// sameModuloDictOrder: detail text embeds dict renderings in Go map iteration order; two texts that
// contain a dict and are permutations of one another are taken as equal (sound: never alarms on order).
func sameModuloDictOrder(a, b string) bool {
	if !strings.Contains(a, "{") || len(a) != len(b) {
		return false
	}
	var ca, cb [256]int
	for i := 0; i < len(a); i++ {
		ca[a[i]]++
		cb[b[i]]++
	}
	return ca == cb
}

func restClass(rest string) string {
	r := strings.TrimLeftFunc(rest, unicode.IsSpace)
	r = strings.TrimLeft(r, ";")
	r = strings.TrimLeftFunc(r, unicode.IsSpace)
	if r == "" {
		return "blank"
	}
	switch r[0] {
	case '\'':
		return "squote"
	case '"':
		return "dquote"
	case '`':
		return "backtick"
	case 0x1e:
		return "0x1e"
	case '[', '{', '(', '&', '.', '?', ':', '=', '|', '*', '!', '<', '-', '+', '^', '/', ',', ')', ']', '}', '%', '\\':
		return string(r[0])
	}
	if r[0] >= '0' && r[0] <= '9' {
		return "digit"
	}
	for _, kw := range []string{"if", "while", "func", "else", "return"} {
		if strings.HasPrefix(r, kw) {
			return kw
		}
	}
	return "ident"
}

func opsTrim(ops []string) string {
	// the final halt belongs to both programs; render compactly
	s := strings.Join(ops, " ")
	if len(s) > 300 {
		s = s[:300] + "…"
	}
	return s
}

func c03Run(raw json.RawMessage) harn.Result {
	var c c03Case
	if err := json.Unmarshal(raw, &c); err != nil {
		panic(err)
	}
	res := harn.Result{Stats: map[string]int64{}}
	warm := len(c.Src)%128 == 7 // one case in 128 on a well-used VM
	full, site := c03Eval(c.Cfg, c.Src, warm)
	viol := func(sig, what string) {
		if len(res.Violations) < 1 {
			res.Violations = append(res.Violations, harn.Violation{Signature: sig, What: fmt.Sprintf("cfg[%s] input %q (matched %q rest %q): %s", c.Cfg, c.Src, full.matched, full.rest, what)})
		}
	}
	if site != "" {
		viol(site, "panic")
		return res
	}
	if full.err != "" {
		res.Outcome = "rejected"
		return res
	}
	res.Outcome = "accepted"
	if full.rest != "" {
		res.Nontrivial = true
		res.Outcome = "accepted-with-rest"
	}
	if full.matched+full.rest != c.Src {
		viol("C03:matched+rest!=input", "Matched followed by RestInput is not the input")
		return res
	}
	if strings.TrimRightFunc(full.matched, unicode.IsSpace) != full.matched {
		viol("C03:matched-trailing-space", "Matched ends in white space")
	}
	alone, site2 := c03Eval(c.Cfg, full.matched, warm)
	if site2 != "" {
		viol(site2, "panic when Matched is evaluated alone")
		return res
	}
	cls := restClass(full.rest)
	if alone.err != "" {
		viol("C03:matched-alone-rejected:rest="+cls, "Matched evaluated alone is rejected: "+strings.SplitN(alone.err, "\n", 2)[0])
		return res
	}
	if alone.rest != "" {
		viol("C03:matched-alone-has-rest:rest="+cls, fmt.Sprintf("evaluating Matched alone leaves rest %q", alone.rest))
		return res
	}
	var diffs []string
	if alone.ret != full.ret {
		diffs = append(diffs, "value")
	}
	if alone.attrs != full.attrs {
		diffs = append(diffs, "variables")
	}
	if strings.Join(alone.st, ";") != strings.Join(full.st, ";") {
		diffs = append(diffs, "st-callbacks")
	}
	if alone.draws != full.draws {
		diffs = append(diffs, "dice-drawn")
	}
	if len(diffs) == 0 && alone.detail != full.detail && !sameModuloDictOrder(alone.detail, full.detail) {
		diffs = append(diffs, "detail-text")
	}
	if len(diffs) == 0 && strings.Join(alone.ops, " ") != strings.Join(full.ops, " ") {
		diffs = append(diffs, "executed-instructions")
	}
	if len(diffs) > 0 {
		viol("C03:"+strings.Join(diffs, "+")+":rest="+cls,
			fmt.Sprintf("full input gives value %s, detail %q, vars %s, %d dice, ops [%s]; Matched alone gives value %s, detail %q, vars %s, %d dice, ops [%s]",
				full.ret, full.detail, full.attrs, full.draws, opsTrim(full.ops), alone.ret, alone.detail, alone.attrs, alone.draws, opsTrim(alone.ops)))
	}
	return res
}

func init() {
	harn.Register(&harn.Check{
		ID:   "C03",
		Rule: "inputs: (valid program from a pool covering every construct kind) x (separator) x (tail that begins like a literal / call / index / block / operator and breaks off), plus every token string of <= 3 tokens, under family-on / family-off (thorough: strict) configurations; oracle (differential, no reference needed): Matched+RestInput == input, Matched has no trailing blank, and evaluating Matched alone on a VM in the same prior state with the same die answers gives the same value, variables, st callbacks, number of dice, detail text and executed instruction sequence, with empty rest. Non-trivial = accepted with a non-empty rest; distinct by (input, configuration).",
		Enumerate: c03Enumerate,
		Run:       c03Run,
		Budget:    map[string]time.Duration{"quick": 400 * time.Second, "thorough": 40 * time.Minute},
	})
}
