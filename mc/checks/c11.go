package checks

import (
	"strings"
	"sync/atomic"
	"encoding/json"
	"fmt"
	"regexp"
	"strconv"
	"sync"
	"time"

	ds "github.com/sealdice/dicescript"
	"verifmc/drv"
	"verifmc/harn"
	"verifmc/sched"
)

// C11 — independent VMs are race-free and behave exactly as when run alone.
// Two strata: (1) schedule enumeration under the cooperative scheduler at
// instruction boundaries and hooked shared-state accesses (behaviour equals
// the isolated run); (2) a separate free-running pass of the same thread
// bodies in a -race build (data races: a cooperative scheduler's hand-offs are
// happens-before edges that would blind the detector).

type c11Thread struct {
	Src  string
	Seed int64  `json:",omitempty"`
	Lang int    `json:",omitempty"`
	Def  string `json:",omitempty"`
	// Off: configuration switches that differ from the all-on default (bit 0 DisableBitwiseOp, 1 Fate off, 2 CoC off, 3 WoD off,
	// 4 Double Cross off, 5 DisableStmts, 6 DisableNDice); Max: DiceMaxMode (deterministic dice)
	Off int  `json:",omitempty"`
	Max bool `json:",omitempty"`
	// Fresh: every '@' in Src and Def is replaced by a number that is new for every RUN (one isolated evaluation, or one
	// schedule with all its VMs) of the process: anything keyed by program text has then never been seen by the baseline
	// run, while the VMs of one concurrent run do collide on it
	Fresh bool `json:",omitempty"`
	// ValOnly: compare error and value only (the process text lists a map-ordered value)
	ValOnly bool `json:",omitempty"`
	// ParseLimit: Config.ParseExprLimit of this VM (0 = default)
	ParseLimit uint64 `json:",omitempty"`
	// SeqOnly: too many instruction boundaries for schedule enumeration (a loop over a list): sequential replay and race pass only
	SeqOnly bool `json:",omitempty"`
}

var c11Uniq int64

// c11FreshTexts: the same text means different things under different configurations
var c11FreshTexts = []struct {
	src, def string
	off      int
}{
	{"2d + 1 + 0*@", "4|8 + 0*@", 1}, {"1|2 + 0*@", "", 1}, {"f + 0*@", "", 2}, {"2d + 0*@", "f + 5 + 0*@", 2}, {"b + 0*@", "", 4}, {"d + 0*@", "b + 0*@", 4}, {"2a10 + 0*@", "", 8}, {"2c10 + 0*@", "", 16},
	{"if 1 { 2 + 0*@ }", "", 32}, {"3d + 0*@", "2d4 + 0*@", 64}, {"2d6 + 0*@", "", 64},
}

var c11ShimInstall func(e *sched.Exec)
var c11ShimUninstall func()

type c11Case struct {
	Kind    string // sched | shim | race
	Threads []c11Thread
	Bound   int `json:",omitempty"`
	Reps    int `json:",omitempty"`
}

var c11Pool = []c11Thread{
	{Src: "3d6"}, {Src: "d20 + d4"}, {Src: "2a9 + 2c9 + f + b2"}, {Src: "[1,2,3,4].shuffle()"}, {Src: "[1,2,3].rand() + [4,5].randSize(1)[0]"},
	{Src: "3d6", Seed: 1}, {Src: "d20 + d4", Seed: 2}, {Src: "2a9 + 2c9 + f + b2", Seed: 3}, {Src: "[1,2,3,4].shuffle()", Seed: 4},
	{Src: "[1,2].sum()"}, {Src: "[5].sum()"}, {Src: "[3,1,2].kh(2)"}, {Src: "[3,1,2] kl"}, {Src: "ceil(1.5) + abs(-2)"}, {Src: "{'a':1}.keys()"}, {Src: "dir([]).len()"}, {Src: "toStr(1.5) + repr('x')"},
	{Src: "x = [1]; x.push(2); x.pop(); x"}, {Src: "x = {'k': 1}; x.k = 2; x.len()"},
	{Src: "(1+2", Lang: 1}, {Src: "(1+2", Lang: 2}, {Src: "", Lang: 1}, {Src: "", Lang: 2}, {Src: "1 +* ", Lang: 0}, {Src: "'abc", Lang: 2}, {Src: "if ", Lang: 1},
	{Src: "2d", Def: "d4+2"}, {Src: "d + d", Def: "6", Seed: 5}, {Src: "&c = 2d6; c + c", Seed: 6}, {Src: "&c = 2d6; c + c"}, {Src: "func g(){ d6 }; g() + g()", Seed: 7}, {Src: "func g(n){ n <= 0 ? 0 : 1 + g(n-1) }; g(3)"},
	{Src: "`{d6}-{d6}`", Seed: 8}, {Src: "`{% x = 2; x %}{x}`"}, {Src: "i = 0; while i < 3 { i = i + 1 }; i"}, {Src: "1/0"}, {Src: "[1,2,3][5]"}, {Src: "^stA:5 B+1"}, {Src: "x = 5; load('x') + 1"}, {Src: "2d6k1 + 3d6q1", Seed: 9}, {Src: "d6优势"}, {Src: "'a' + 'b' == 'ab'"},
	// values handed out by built-ins, modified in place by the VM that received them
	// (dir lists names in map order: these programs are compared by value only, and their values do not depend on the order; the readers come first
	// so that the sequential replay sees them once before and once after the writers)
	{Src: "x = dir([]); i = 0; n = 0; while i < x.len() { y = x[i]; if y == 'hacked' { n = n + 1 }; i = i + 1 }; [n, x.len()]", ValOnly: true, SeqOnly: true}, {Src: "x = dir({}); i = 0; n = 0; while i < x.len() { y = x[i]; if y == 'hacked' { n = n + 1 }; i = i + 1 }; [n, x.len()]", ValOnly: true, SeqOnly: true},
	{Src: "x = dir([]); x[0] = 'hacked'; x[1] = 'hacked'; x.len()", ValOnly: true}, {Src: "x = dir({}); x.pop(); x.push('hacked'); x[0] = 'hacked'; x.len()", ValOnly: true}, {Src: "x = dir(&c); x[0] = 'hacked'; 1", ValOnly: true},
	{Src: "x = [1,2].kh; y = [3].kh; [x(), y()]"},
	// a VM that runs into its own parse budget, next to VMs that parse the same kind of text within theirs
	{Src: "1+2+3+4+5+6+7+8+9+(1+2+3+4+5+6+7+8+9)+[1,2,3,4,5,6,7,8,9].sum()", ParseLimit: 300, SeqOnly: true}, {Src: "1+2+3+4+5+6+7+8+9+(1+2+3+4+5+6+7+8+9)+[1,2,3,4,5,6,7,8,9].sum()", SeqOnly: true}, {Src: "1+2+3+4+5+6+7+8+9+(1+2", SeqOnly: true},
	// computed values without attributes that read / write a name nobody has defined (each VM has its own scopes)
	{Src: "&rd = tq9 ?? 0; rd + rd"}, {Src: "&wr = (tq9 = 5) + 1; wr + wr"}, {Src: "&rd2 = tq8; func g(){ rd2 }; g()"}, {Src: "func w(){ &k = (tq8 = 7); k }; w()"},
}

func c11Enumerate(tier string, seed int64, emit func(string, any)) {
	thorough := tier == "thorough"
	n := len(c11Pool)
	// sequential isolation, as the FIRST thing a fresh worker process does: every deterministic program of the pool on a fresh
	// VM each, the whole pool three times over (in order, in order again, in reverse): a program gives the same answer every
	// time, whatever ran in the process before
	emit("sched/sequential replay of the pool", c11Case{Kind: "golden"})
	// the pool's core (the first 41 programs) is paired completely; the special-purpose programs after it are paired with each
	// other and with the first 8 core programs (both orders)
	const core = 41
	for i := 0; i < n; i++ {
		for j := 0; j < n; j++ {
			if (i >= core) != (j >= core) && i >= 8 && j >= 8 {
				continue
			}
			reps := 4
			if thorough {
				reps = 8
			}
			if c11Pool[i].SeqOnly || c11Pool[j].SeqOnly {
				emit("race/2 VMs", c11Case{Kind: "race", Threads: []c11Thread{c11Pool[i], c11Pool[j]}, Reps: reps})
				continue
			}
			emit("sched/2 VMs", c11Case{Kind: "sched", Threads: []c11Thread{c11Pool[i], c11Pool[j]}, Bound: 1})
			if thorough || (i+j)%7 == 0 {
				emit("sched/2 VMs bound 2", c11Case{Kind: "sched", Threads: []c11Thread{c11Pool[i], c11Pool[j]}, Bound: 2})
			}
			emit("race/2 VMs", c11Case{Kind: "race", Threads: []c11Thread{c11Pool[i], c11Pool[j]}, Reps: reps})
		}
	}
	// the same text under different configurations (fresh per run): whatever is keyed by text must also be keyed by the VM
	for _, ft := range c11FreshTexts {
		a := c11Thread{Src: ft.src, Def: ft.def, Max: true, Fresh: true}
		b := a
		b.Off = ft.off
		for _, pair := range [][]c11Thread{{a, b}, {b, a}} {
			emit("sched/same text, different configuration", c11Case{Kind: "sched", Threads: pair, Bound: 1})
			emit("race/same text, different configuration", c11Case{Kind: "race", Threads: pair, Reps: 4})
		}
	}
	// shared built-in tables at mutex / atomic granularity (needs the overlay build): programs that look methods up
	var meth []c11Thread
	for _, t := range c11Pool {
		if regexp.MustCompile(`\.(sum|kh|keys|len|push|pop|shuffle|rand|randSize)\(|dir\(| k[hl]`).MatchString(t.Src) {
			meth = append(meth, t)
		}
	}
	for _, a := range meth {
		for _, b := range meth {
			emit("shim/2 VMs at ValueMap granularity", c11Case{Kind: "shim", Threads: []c11Thread{a, b}, Bound: 1})
		}
	}
	m := 6
	if thorough {
		m = 20
	}
	for i := 0; i < m; i++ {
		for j := 0; j < m; j++ {
			for k := 0; k < m; k++ {
				t := []c11Thread{c11Pool[(i*3)%n], c11Pool[(j*3+1)%n], c11Pool[(k*3+2)%n]}
				emit("sched/3 VMs", c11Case{Kind: "sched", Threads: t, Bound: 1})
				if (i+j+k)%4 == 0 {
					emit("race/3 VMs", c11Case{Kind: "race", Threads: t, Reps: 4})
				}
			}
		}
	}
}

type c11Obs struct {
	err, ret, detail string
	rest             string
	rolled           bool
	held             error // the error object; rendered again after all VMs have finished
}

func c11NewVM(t c11Thread) *ds.Context {
	cfg := drv.AllOn()
	cfg.Seed, cfg.Lang, cfg.DefExpr = t.Seed, t.Lang, t.Def
	cfg.NoBitwise, cfg.Fate, cfg.CoC, cfg.WoD, cfg.DC = t.Off&1 != 0, t.Off&2 == 0, t.Off&4 == 0, t.Off&8 == 0, t.Off&16 == 0
	cfg.NoStmts, cfg.NoNDice, cfg.Max = t.Off&32 != 0, t.Off&64 != 0, t.Max
	cfg.OpLimit = 20000
	cfg.ParseLimit = t.ParseLimit
	vm := drv.NewVM(cfg)
	vm.Config.CallbackSt = func(_type string, name string, val *ds.VMValue, extra *ds.VMValue, op string, detail string) {}
	return vm
}

var reFresh = regexp.MustCompile(`0\*\d+`)

// c11Body evaluates one thread; uniq is the run's fresh number (see c11Thread.Fresh)
func c11Body(t c11Thread, uniq int64) c11Obs {
	if t.Fresh {
		u := strconv.FormatInt(uniq, 10)
		t.Src, t.Def = strings.ReplaceAll(t.Src, "@", u), strings.ReplaceAll(t.Def, "@", u)
	}
	vm := c11NewVM(t)
	var o c11Obs
	norm := func(x string) string {
		if t.Fresh {
			return reFresh.ReplaceAllString(x, "0*#")
		}
		return x
	}
	if err := vm.Run(t.Src); err != nil {
		o.err = norm(err.Error())
		if !t.Fresh {
			o.held = err
		}
		return o
	}
	o.ret = drv.Canon(vm.Ret)
	o.detail = norm(vm.GetDetailText())
	if t.ValOnly {
		o.detail = ""
	}
	o.rest = norm(vm.RestInput)
	return o
}

var reDigits = regexp.MustCompile(`\d+`)

// shape: a rendering with every number replaced, for unseeded threads whose dice legitimately differ
func shape(s string) string { return reDigits.ReplaceAllString(s, "#") }

func c11Run(raw json.RawMessage) harn.Result {
	var c c11Case
	if err := json.Unmarshal(raw, &c); err != nil {
		panic(err)
	}
	res := harn.Result{Stats: map[string]int64{}, Nontrivial: true, Outcome: c.Kind}
	ds.VerifRollHook, ds.VerifStepHook, ds.VerifSharedHook = nil, nil, nil
	viol := func(sig, what string) {
		if len(res.Violations) < 2 {
			res.Violations = append(res.Violations, harn.Violation{Signature: sig, What: fmt.Sprintf("threads %+v: %s", c.Threads, what)})
		}
	}
	ds.VerifResetBuiltinTables() // a previous case may have left the shared tables damaged (that is what a violation looks like)
	iso := make([]c11Obs, len(c.Threads))
	for i, t := range c.Threads {
		ds.VerifSeedGlobal(uint64(7 + i))
		iso[i] = c11Body(t, atomic.AddInt64(&c11Uniq, 1))
		iso[i].held = nil
	}
	compare := func(i int, got c11Obs, where string) {
		t := c.Threads[i]
		if got.held != nil {
			if late := got.held.Error(); late != got.err {
				viol("C11:error-text-changes-after-the-fact", fmt.Sprintf("%s: VM %d (%q): error rendered %q inside its goroutine but %q after the other VMs had finished", where, i, t.Src, got.err, late))
			}
			got.held = nil
		}
		if t.Seed != 0 || !usesDice(t.Src) {
			if got != iso[i] {
				viol("C11:differs-from-isolated", fmt.Sprintf("%s: VM %d (%q seed %d) gives err=%q value=%s detail=%q; alone it gives err=%q value=%s detail=%q", where, i, t.Src, t.Seed, got.err, got.ret, got.detail, iso[i].err, iso[i].ret, iso[i].detail))
			}
			return
		}
		// unseeded VMs share the process-wide generator by design: values may differ, shape and error text may not
		if got.err != iso[i].err || shape(got.ret) != shape(iso[i].ret) {
			viol("C11:differs-from-isolated", fmt.Sprintf("%s: unseeded VM %d (%q) gives err=%q value=%s; alone err=%q value=%s", where, i, t.Src, got.err, got.ret, iso[i].err, iso[i].ret))
		}
		if msg := diceInRange(t.Src, got.ret); msg != "" {
			viol("C11:die-out-of-range", fmt.Sprintf("%s: VM %d (%q): %s", where, i, t.Src, msg))
		}
	}
	if c.Kind == "golden" {
		first := map[int]c11Obs{}
		order := []int{}
		for pass := 0; pass < 3; pass++ {
			for k := range c11Pool {
				i := k
				if pass == 2 {
					i = len(c11Pool) - 1 - k
				}
				order = append(order, i)
			}
		}
		for n, i := range order {
			t := c11Pool[i]
			if t.Seed == 0 && usesDice(t.Src) {
				continue
			}
			o := c11Body(t, atomic.AddInt64(&c11Uniq, 1))
			o.held = nil
			if prev, ok := first[i]; !ok {
				first[i] = o
			} else if prev != o {
				viol("C11:differs-from-isolated", fmt.Sprintf("sequential replay: %q on a fresh VM gave err=%q value=%s detail=%q the first time and err=%q value=%s detail=%q at position %d of the replay (process-wide state leaks from one VM to the next)", t.Src, prev.err, prev.ret, prev.detail, o.err, o.ret, o.detail, n))
				break
			}
		}
		res.Sample = "pool replayed three times on fresh VMs"
		return res
	}
	switch c.Kind {
	case "sched", "shim":
		if c.Kind == "shim" && c11ShimInstall == nil {
			viol("MACHINERY:no-shim", "binary built without the sync-shim overlay")
			return res
		}
		got := make([]c11Obs, len(c.Threads))
		mk := func() []func() {
			ds.VerifSeedGlobal(7)
			if c.Kind == "shim" {
				ds.VerifResetBuiltinTables() // every execution starts from the tables' start-up (unpromoted) state
			}
			var bodies []func()
			u := atomic.AddInt64(&c11Uniq, 1)
			for i := range c.Threads {
				i := i
				bodies = append(bodies, func() { got[i] = c11Body(c.Threads[i], u) })
			}
			return bodies
		}
		install := func(e *sched.Exec) {
			ds.VerifSharedHook = func(name string, write bool) { e.Point("shared:" + name) }
			ds.VerifStepHook = func(ctx *ds.Context, pc, top, bd, fd, dd, nd int) { e.Point("step") }
			if c.Kind == "shim" {
				c11ShimInstall(e)
			}
		}
		uninstall := func() {
			ds.VerifSharedHook, ds.VerifStepHook = nil, nil
			if c.Kind == "shim" {
				c11ShimUninstall()
			}
		}
		st := sched.Explore(c.Bound, 600, mk, install, uninstall, func(e *sched.Exec) {
			if len(res.Violations) > 0 {
				return
			}
			if ps := e.Panics(); len(ps) > 0 {
				viol("C11:panic", fmt.Sprint(ps))
				return
			}
			if e.Dead {
				viol("C11:deadlock", fmt.Sprintf("schedule %v", e.Choices))
				return
			}
			for i := range got {
				compare(i, got[i], fmt.Sprintf("schedule %v", e.Choices))
			}
		})
		res.Stats["schedules"] += st.Schedules
		res.Stats["sched_points"] += st.Points
		res.Stats["schedules_cut"] += st.Cut
		res.Sample = fmt.Sprintf("%q || ... (%d VMs): %d schedules at preemption bound %d", c.Threads[0].Src, len(c.Threads), st.Schedules, c.Bound)
	case "race":
		// free-running goroutines behind a start barrier; the -race build reports unsynchronised accesses
		for rep := 0; rep < c.Reps; rep++ {
			var wg, ready sync.WaitGroup
			start := make(chan struct{})
			got := make([]c11Obs, len(c.Threads))
			u := atomic.AddInt64(&c11Uniq, 1)
			for i := range c.Threads {
				wg.Add(1)
				ready.Add(1)
				go func(i int) {
					defer wg.Done()
					ready.Done()
					<-start
					got[i] = c11Body(c.Threads[i], u)
				}(i)
			}
			ready.Wait()
			close(start)
			wg.Wait()
			for i := range got {
				compare(i, got[i], "free-running rep "+strconv.Itoa(rep))
			}
			res.Stats["free_running_executions"]++
		}
		res.Sample = fmt.Sprintf("race pass: %q || %q x%d", c.Threads[0].Src, c.Threads[1].Src, c.Reps)
	}
	return res
}

func usesDice(src string) bool {
	return regexp.MustCompile(`\dd|d\d|\bd\b|[0-9]a[0-9]|[0-9]c[0-9]|\bf\b|\bb[0-9]?\b|shuffle|rand`).MatchString(src)
}

// diceInRange: coarse range check of unseeded results for the simple dice programs of the pool.
func diceInRange(src, ret string) string {
	v, err := strconv.Atoi(ret)
	if err != nil {
		return ""
	}
	switch src {
	case "3d6":
		if v < 3 || v > 18 {
			return fmt.Sprintf("3d6 = %d", v)
		}
	case "d20 + d4":
		if v < 2 || v > 24 {
			return fmt.Sprintf("d20 + d4 = %d", v)
		}
	case "d6优势":
		if v < 1 || v > 6 {
			return fmt.Sprintf("d6 advantage = %d", v)
		}
	}
	return ""
}

func init() {
	harn.Register(&harn.Check{
		ID:   "C11",
		Rule: "shim stratum: for every ordered pair of the method-using programs, additionally every mutex / atomic operation inside ValueMap is a scheduling point (sync-shim overlay build) and the shared built-in method tables are put back into their start-up state before every execution, preemption bound 1. sched strata: for every ordered pair (and a family of triples) of thread bodies from a 40-program pool chosen to collide (unseeded dice on the shared generator, seeded dice, shared native function objects and bound-method cloning, syntax errors under different languages, DefaultDiceSideExpr, computed values, functions, templates, st), each on its OWN VM, every schedule with <= 1 (a seventh: 2) preemptions at every instruction boundary of every sub-VM (VerifStep), every hooked access to package-level state (VerifShared) and the Parse entry/run points is executed; each seeded or dice-free VM must return exactly the value, error text and detail text of its isolated run; unseeded VMs the same shape, error text and in-range dice. same text / different configuration: 11 (source, default-sides expression) texts that mean different things under a configuration switch (bitwise, each dice family, statements, NdM), one VM with the switch and one without, both orders, max mode; the texts carry a number that is new for every run of the process, so the isolated baseline has never shared a text-keyed entry with another configuration while the VMs of one concurrent run do collide. race strata: the same thread bodies for every ordered pair (and triples) run free on real goroutines behind a start barrier, 4 (thorough 8) repetitions, in a -race build; any data-race report kills the worker and is attributed to the pair. Distinct by thread list; all non-trivial (two or more VMs).",
		Assume: []string{"interleavings are explored at instruction-boundary / hooked-access granularity under sequential consistency; accesses inside one VM instruction are the race detector's business", "the race pass is a detector run over a complete pair set, not a schedule enumeration"},
		Enumerate:   c11Enumerate,
		Run:         c11Run,
		CaseTimeout: 120 * time.Second,
		Budget:      map[string]time.Duration{"quick": 400 * time.Second, "thorough": 40 * time.Minute},
		Phases: []harn.Phase{
			{Only: "sched/"},
			{Only: "shim/", Exe: "check-sched"},
			{Only: "race/", Exe: "check-race", Procs: 4, NoRlimit: true, Env: []string{"GORACE=halt_on_error=1 exitcode=66"}},
		},
	})
}
