package checks

import (
	"encoding/json"
	"fmt"
	"regexp"
	"strconv"
	"sync"
	"time"

	ds "github.com/sealdice/dicescript"
	"verifmc/drv"
	"verifmc/harn"
	"verifmc/sched"
)

// C11 — independent VMs are race-free and behave exactly as when run alone.
// Two strata: (1) schedule enumeration under the cooperative scheduler at
// instruction boundaries and hooked shared-state accesses (behaviour equals
// the isolated run); (2) a separate free-running pass of the same thread
// bodies in a -race build (data races: a cooperative scheduler's hand-offs are
// happens-before edges that would blind the detector).

type c11Thread struct {
	Src  string
	Seed int64  `json:",omitempty"`
	Lang int    `json:",omitempty"`
	Def  string `json:",omitempty"`
}

var c11ShimInstall func(e *sched.Exec)
var c11ShimUninstall func()

type c11Case struct {
	Kind    string // sched | shim | race
	Threads []c11Thread
	Bound   int `json:",omitempty"`
	Reps    int `json:",omitempty"`
}

var c11Pool = []c11Thread{
	{Src: "3d6"}, {Src: "d20 + d4"}, {Src: "2a9 + 2c9 + f + b2"}, {Src: "[1,2,3,4].shuffle()"}, {Src: "[1,2,3].rand() + [4,5].randSize(1)[0]"},
	{Src: "3d6", Seed: 1}, {Src: "d20 + d4", Seed: 2}, {Src: "2a9 + 2c9 + f + b2", Seed: 3}, {Src: "[1,2,3,4].shuffle()", Seed: 4},
	{Src: "[1,2].sum()"}, {Src: "[5].sum()"}, {Src: "[3,1,2].kh(2)"}, {Src: "[3,1,2] kl"}, {Src: "ceil(1.5) + abs(-2)"}, {Src: "{'a':1}.keys()"}, {Src: "dir([]).len()"}, {Src: "toStr(1.5) + repr('x')"},
	{Src: "x = [1]; x.push(2); x.pop(); x"}, {Src: "x = {'k': 1}; x.k = 2; x.len()"},
	{Src: "(1+2", Lang: 1}, {Src: "(1+2", Lang: 2}, {Src: "", Lang: 1}, {Src: "", Lang: 2}, {Src: "1 +* ", Lang: 0}, {Src: "'abc", Lang: 2}, {Src: "if ", Lang: 1},
	{Src: "2d", Def: "d4+2"}, {Src: "d + d", Def: "6", Seed: 5}, {Src: "&c = 2d6; c + c", Seed: 6}, {Src: "&c = 2d6; c + c"}, {Src: "func g(){ d6 }; g() + g()", Seed: 7}, {Src: "func g(n){ n <= 0 ? 0 : 1 + g(n-1) }; g(3)"},
	{Src: "`{d6}-{d6}`", Seed: 8}, {Src: "`{% x = 2; x %}{x}`"}, {Src: "i = 0; while i < 3 { i = i + 1 }; i"}, {Src: "1/0"}, {Src: "[1,2,3][5]"}, {Src: "^stA:5 B+1"}, {Src: "x = 5; load('x') + 1"}, {Src: "2d6k1 + 3d6q1", Seed: 9}, {Src: "d6优势"}, {Src: "'a' + 'b' == 'ab'"},
}

func c11Enumerate(tier string, seed int64, emit func(string, any)) {
	thorough := tier == "thorough"
	n := len(c11Pool)
	for i := 0; i < n; i++ {
		for j := 0; j < n; j++ {
			emit("sched/2 VMs", c11Case{Kind: "sched", Threads: []c11Thread{c11Pool[i], c11Pool[j]}, Bound: 1})
			if thorough || (i+j)%5 == 0 {
				emit("sched/2 VMs bound 2", c11Case{Kind: "sched", Threads: []c11Thread{c11Pool[i], c11Pool[j]}, Bound: 2})
			}
			emit("race/2 VMs", c11Case{Kind: "race", Threads: []c11Thread{c11Pool[i], c11Pool[j]}, Reps: 8})
		}
	}
	// shared built-in tables at mutex / atomic granularity (needs the overlay build): programs that look methods up
	var meth []c11Thread
	for _, t := range c11Pool {
		if regexp.MustCompile(`\.(sum|kh|keys|len|push|pop|shuffle|rand|randSize)\(|dir\(| k[hl]`).MatchString(t.Src) {
			meth = append(meth, t)
		}
	}
	for _, a := range meth {
		for _, b := range meth {
			emit("shim/2 VMs at ValueMap granularity", c11Case{Kind: "shim", Threads: []c11Thread{a, b}, Bound: 1})
		}
	}
	m := 8
	if thorough {
		m = 20
	}
	for i := 0; i < m; i++ {
		for j := 0; j < m; j++ {
			for k := 0; k < m; k++ {
				t := []c11Thread{c11Pool[(i*3)%n], c11Pool[(j*3+1)%n], c11Pool[(k*3+2)%n]}
				emit("sched/3 VMs", c11Case{Kind: "sched", Threads: t, Bound: 1})
				if (i+j+k)%4 == 0 {
					emit("race/3 VMs", c11Case{Kind: "race", Threads: t, Reps: 4})
				}
			}
		}
	}
}

type c11Obs struct {
	err, ret, detail string
	rolled           bool
	held             error // the error object; rendered again after all VMs have finished
}

func c11NewVM(t c11Thread) *ds.Context {
	cfg := drv.AllOn()
	cfg.Seed, cfg.Lang, cfg.DefExpr = t.Seed, t.Lang, t.Def
	cfg.OpLimit = 20000
	vm := drv.NewVM(cfg)
	vm.Config.CallbackSt = func(_type string, name string, val *ds.VMValue, extra *ds.VMValue, op string, detail string) {}
	return vm
}

func c11Body(t c11Thread) c11Obs {
	vm := c11NewVM(t)
	var o c11Obs
	if err := vm.Run(t.Src); err != nil {
		o.err = err.Error()
		o.held = err
		return o
	}
	o.ret = drv.Canon(vm.Ret)
	o.detail = vm.GetDetailText()
	return o
}

var reDigits = regexp.MustCompile(`\d+`)

// shape: a rendering with every number replaced, for unseeded threads whose dice legitimately differ
func shape(s string) string { return reDigits.ReplaceAllString(s, "#") }

func c11Run(raw json.RawMessage) harn.Result {
	var c c11Case
	if err := json.Unmarshal(raw, &c); err != nil {
		panic(err)
	}
	res := harn.Result{Stats: map[string]int64{}, Nontrivial: true, Outcome: c.Kind}
	ds.VerifRollHook, ds.VerifStepHook, ds.VerifSharedHook = nil, nil, nil
	viol := func(sig, what string) {
		if len(res.Violations) < 2 {
			res.Violations = append(res.Violations, harn.Violation{Signature: sig, What: fmt.Sprintf("threads %+v: %s", c.Threads, what)})
		}
	}
	ds.VerifResetBuiltinTables() // a previous case may have left the shared tables damaged (that is what a violation looks like)
	iso := make([]c11Obs, len(c.Threads))
	for i, t := range c.Threads {
		ds.VerifSeedGlobal(uint64(7 + i))
		iso[i] = c11Body(t)
		iso[i].held = nil
	}
	compare := func(i int, got c11Obs, where string) {
		t := c.Threads[i]
		if got.held != nil {
			if late := got.held.Error(); late != got.err {
				viol("C11:error-text-changes-after-the-fact", fmt.Sprintf("%s: VM %d (%q): error rendered %q inside its goroutine but %q after the other VMs had finished", where, i, t.Src, got.err, late))
			}
			got.held = nil
		}
		if t.Seed != 0 || !usesDice(t.Src) {
			if got != iso[i] {
				viol("C11:differs-from-isolated", fmt.Sprintf("%s: VM %d (%q seed %d) gives err=%q value=%s detail=%q; alone it gives err=%q value=%s detail=%q", where, i, t.Src, t.Seed, got.err, got.ret, got.detail, iso[i].err, iso[i].ret, iso[i].detail))
			}
			return
		}
		// unseeded VMs share the process-wide generator by design: values may differ, shape and error text may not
		if got.err != iso[i].err || shape(got.ret) != shape(iso[i].ret) {
			viol("C11:differs-from-isolated", fmt.Sprintf("%s: unseeded VM %d (%q) gives err=%q value=%s; alone err=%q value=%s", where, i, t.Src, got.err, got.ret, iso[i].err, iso[i].ret))
		}
		if msg := diceInRange(t.Src, got.ret); msg != "" {
			viol("C11:die-out-of-range", fmt.Sprintf("%s: VM %d (%q): %s", where, i, t.Src, msg))
		}
	}
	switch c.Kind {
	case "sched", "shim":
		if c.Kind == "shim" && c11ShimInstall == nil {
			viol("MACHINERY:no-shim", "binary built without the sync-shim overlay")
			return res
		}
		got := make([]c11Obs, len(c.Threads))
		mk := func() []func() {
			ds.VerifSeedGlobal(7)
			if c.Kind == "shim" {
				ds.VerifResetBuiltinTables() // every execution starts from the tables' start-up (unpromoted) state
			}
			var bodies []func()
			for i := range c.Threads {
				i := i
				bodies = append(bodies, func() { got[i] = c11Body(c.Threads[i]) })
			}
			return bodies
		}
		install := func(e *sched.Exec) {
			ds.VerifSharedHook = func(name string, write bool) { e.Point("shared:" + name) }
			ds.VerifStepHook = func(ctx *ds.Context, pc, top, bd, fd, dd, nd int) { e.Point("step") }
			if c.Kind == "shim" {
				c11ShimInstall(e)
			}
		}
		uninstall := func() {
			ds.VerifSharedHook, ds.VerifStepHook = nil, nil
			if c.Kind == "shim" {
				c11ShimUninstall()
			}
		}
		st := sched.Explore(c.Bound, 600, mk, install, uninstall, func(e *sched.Exec) {
			if len(res.Violations) > 0 {
				return
			}
			if ps := e.Panics(); len(ps) > 0 {
				viol("C11:panic", fmt.Sprint(ps))
				return
			}
			if e.Dead {
				viol("C11:deadlock", fmt.Sprintf("schedule %v", e.Choices))
				return
			}
			for i := range got {
				compare(i, got[i], fmt.Sprintf("schedule %v", e.Choices))
			}
		})
		res.Stats["schedules"] += st.Schedules
		res.Stats["sched_points"] += st.Points
		res.Stats["schedules_cut"] += st.Cut
		res.Sample = fmt.Sprintf("%q || ... (%d VMs): %d schedules at preemption bound %d", c.Threads[0].Src, len(c.Threads), st.Schedules, c.Bound)
	case "race":
		// free-running goroutines behind a start barrier; the -race build reports unsynchronised accesses
		for rep := 0; rep < c.Reps; rep++ {
			var wg, ready sync.WaitGroup
			start := make(chan struct{})
			got := make([]c11Obs, len(c.Threads))
			for i := range c.Threads {
				wg.Add(1)
				ready.Add(1)
				go func(i int) {
					defer wg.Done()
					ready.Done()
					<-start
					got[i] = c11Body(c.Threads[i])
				}(i)
			}
			ready.Wait()
			close(start)
			wg.Wait()
			for i := range got {
				compare(i, got[i], "free-running rep "+strconv.Itoa(rep))
			}
			res.Stats["free_running_executions"]++
		}
		res.Sample = fmt.Sprintf("race pass: %q || %q x%d", c.Threads[0].Src, c.Threads[1].Src, c.Reps)
	}
	return res
}

func usesDice(src string) bool {
	return regexp.MustCompile(`\dd|d\d|\bd\b|[0-9]a[0-9]|[0-9]c[0-9]|\bf\b|\bb[0-9]?\b|shuffle|rand`).MatchString(src)
}

// diceInRange: coarse range check of unseeded results for the simple dice programs of the pool.
func diceInRange(src, ret string) string {
	v, err := strconv.Atoi(ret)
	if err != nil {
		return ""
	}
	switch src {
	case "3d6":
		if v < 3 || v > 18 {
			return fmt.Sprintf("3d6 = %d", v)
		}
	case "d20 + d4":
		if v < 2 || v > 24 {
			return fmt.Sprintf("d20 + d4 = %d", v)
		}
	case "d6优势":
		if v < 1 || v > 6 {
			return fmt.Sprintf("d6 advantage = %d", v)
		}
	}
	return ""
}

func init() {
	harn.Register(&harn.Check{
		ID:   "C11",
		Rule: "shim stratum: for every ordered pair of the method-using programs, additionally every mutex / atomic operation inside ValueMap is a scheduling point (sync-shim overlay build) and the shared built-in method tables are put back into their start-up state before every execution, preemption bound 1. sched strata: for every ordered pair (and a family of triples) of thread bodies from a 40-program pool chosen to collide (unseeded dice on the shared generator, seeded dice, shared native function objects and bound-method cloning, syntax errors under different languages, DefaultDiceSideExpr, computed values, functions, templates, st), each on its OWN VM, every schedule with <= 1 (a fifth: 2) preemptions at every instruction boundary of every sub-VM (VerifStep), every hooked access to package-level state (VerifShared) and the Parse entry/run points is executed; each seeded or dice-free VM must return exactly the value, error text and detail text of its isolated run; unseeded VMs the same shape, error text and in-range dice. race strata: the same thread bodies for every ordered pair (and triples) run free on real goroutines behind a start barrier, 8 (4) repetitions, in a -race build; any data-race report kills the worker and is attributed to the pair. Distinct by thread list; all non-trivial (two or more VMs).",
		Assume: []string{"interleavings are explored at instruction-boundary / hooked-access granularity under sequential consistency; accesses inside one VM instruction are the race detector's business", "the race pass is a detector run over a complete pair set, not a schedule enumeration"},
		Enumerate:   c11Enumerate,
		Run:         c11Run,
		CaseTimeout: 120 * time.Second,
		Budget:      map[string]time.Duration{"quick": 170 * time.Second, "thorough": 40 * time.Minute},
		Phases: []harn.Phase{
			{Only: "sched/"},
			{Only: "shim/", Exe: "check-sched"},
			{Only: "race/", Exe: "check-race", Procs: 4, NoRlimit: true, Env: []string{"GORACE=halt_on_error=1 exitcode=66"}},
		},
	})
}
