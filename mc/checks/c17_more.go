package checks

import (
	"fmt"
	"sort"
	"strings"

	ds "github.com/sealdice/dicescript"
	"verifmc/drv"
	"verifmc/gen"
	"verifmc/harn"
)

// Two further families of C17.
//
// "stream-expr": a stream parser for the syntax R<expression> that uses the rest of the stream API (Unread, ReadExpr,
// Commit, Remaining, Current) and hands the sub-expression to its handler as a computed value. Oracle: no panic; if the
// program is accepted, its value is that of the program with every consumed "R<T>" written as "(<T>)".
//
// "acting-hooks": load / store hooks that DO act, over a small program pool. Oracle (what "act" means, per hook):
//   * HookValueLoadPre returning an overwrite for name n: every read of n yields the overwrite, the stored variable is untouched;
//   * HookValueLoadPre renaming n -> m: every read of n behaves as a read of m;
//   * HookValueStore returning solved for n: no store to n reaches the variables; other names unaffected;
//   * HookValueStore returning an overwrite for n: the overwrite is what gets stored;
//   * HookValueLoadPost replacing the value of n: reads of n see the replacement.
// The reference is the same program with the read / written name edited accordingly, run without hooks.

var c17ExprOperands = []string{"R2", "R1+2", "R2*3", "R(1+2)", "R2d1", "R[1,2].sum()", "Rx", "R-1"}

var c17ExprAdversarial = []string{
	"R", "RR", "RR1", "R R", "R+", "R(", "R)", "R'a", "R\"a", "R`a", "R`{", "R`{%", "R[", "R{", "R1+", "R1 +", "R1 + ", "R(R(R1))", "R1R2", "R1 R2", "R\n1", "R\t1",
	"R1?", "R1?2", "R1?2:", "R1 ? 2 : 3", "Rif 1 {2}", "Rwhile 0 {}", "Rfunc g(){1}", "Rbreak", "Rreturn 1", "R^stA1", "R//x", "R1;R2", "R1\nR2", "R&x", "R&x=1", "Rx=1", "Rx.y", "Rx[0]", "Rx[0]=1", "R2d", "Rd", "Rb", "Rf", "R2a10", "R2c10",
	"R\x1e{1}\x1e", "R\xff", "R😀", "R技能", "R1.5", "R1e9", "R9223372036854775808", "R1/0", "R1%0",
}

func c17MoreEnumerate(tier string, emit func(string, any)) {
	for _, t := range c17ActTemplates {
		for _, o := range c17ExprOperands {
			emit("stream-expr", c17Case{Kind: "stream-expr", Tmpl: t.t, Op: o, Src: strings.ReplaceAll(t.t, "@", o)})
		}
	}
	for _, s := range c17ExprAdversarial {
		for _, w := range []string{"@", "1 + @", "[@]", "(@)", "`{@}`", "x = @", "@ + 1", "func g(){ @ }; g()", "&q = @; q"} {
			emit("stream-expr", c17Case{Kind: "stream-expr", Src: strings.ReplaceAll(w, "@", s)})
		}
	}
	alpha := append(append([]string{}, gen.TokensCore...), "R")
	n := 2
	if tier == "thorough" {
		n = 3
	}
	gen.StringsUpTo(alpha, n, func(s string) {
		if strings.Contains(s, "R") {
			emit("stream-expr", c17Case{Kind: "stream-expr", Src: s})
		} else {
			emit("stream-expr", c17Case{Kind: "stream-expr", Src: "R" + s})
		}
	})
	c17OddEnumerate(emit)
	for _, p := range c17HookPrograms {
		for k := 0; k < c17HookKinds; k++ {
			emit("acting-hooks", c17Case{Kind: "acting-hooks", Src: p, Ext: k})
		}
	}
}

// programs over the prelude names x (int 2), xa, xd, xs, xf, xc and the fresh names y, z
var c17HookPrograms = []string{
	"x", "x + 1", "x + x", "-x", "[x, x]", "xf(x)", "`{x}`", "`a{% x %}b`", "func g(){ x }; g()", "func g(x){ x }; g(7)", "i = 0; while i < 2 { i = i + 1; x }", "1 ? x : 0", "0 ? x : 5", "x ?? 9", "y ?? x",
	"y = x; y", "y = 1; y", "x = 5; x", "x = x + 1; x", "y = 1; x = 2; [x, y]", "&q = x + 1; q", "&q = x + 1; x = 10; q", "xc", "xc + x", "&xc", "xa[x]", "xa[0] + x", "xd.k + x", "xs + `{x}`",
	"load('x')", "loadRaw('x')", "store('x', 8); x", "store('y', 8); y", "this.x", "this.x = 3; x", "func g(){ this.x = 4; x }; g()", "func g(){ x = 4; x }; [g(), x]", "2d(x)", "(x)d6", "(x)d1", "x ? 1 : 2", "if x { y = 1 }; y", "while x { x = 0 }; x",
	"^stx:1", "^stA:x", "^st&A=x", "dir(this)", "x == 2", "x.k", "x = {}; x.k = 1; x", "x = [1]; x[0] = 2; x", "x = [1]; x.push(2); x",
}

const (
	hookPreOverwrite = iota // reads of x yield 41
	hookPreRename           // reads of x are reads of xa
	hookStoreSolved         // stores to x are swallowed
	hookStoreOverwrite      // stores to x store 43 instead
	hookPostReplace         // reads of x yield 47 (after the normal load)
	c17HookKinds
)

func c17InstallActing(vm *ds.Context, k int, log *[]string) {
	switch k {
	case hookPreOverwrite:
		vm.Config.HookValueLoadPre = func(ctx *ds.Context, name string) (string, *ds.VMValue) {
			if name == "x" {
				*log = append(*log, "pre:"+name)
				return name, ds.NewIntVal(41)
			}
			return name, nil
		}
	case hookPreRename:
		vm.Config.HookValueLoadPre = func(ctx *ds.Context, name string) (string, *ds.VMValue) {
			if name == "x" {
				*log = append(*log, "pre:"+name)
				return "xa", nil
			}
			return name, nil
		}
	case hookStoreSolved:
		vm.Config.HookValueStore = func(ctx *ds.Context, name string, v *ds.VMValue) (*ds.VMValue, bool) {
			if name == "x" {
				*log = append(*log, "store:"+name)
				return nil, true
			}
			return nil, false
		}
	case hookStoreOverwrite:
		vm.Config.HookValueStore = func(ctx *ds.Context, name string, v *ds.VMValue) (*ds.VMValue, bool) {
			if name == "x" {
				*log = append(*log, "store:"+name)
				return ds.NewIntVal(43), false
			}
			return nil, false
		}
	case hookPostReplace:
		vm.Config.HookValueLoadPost = func(ctx *ds.Context, name string, curVal *ds.VMValue, doCompute func(curVal *ds.VMValue) *ds.VMValue, detail *ds.BufferSpan) *ds.VMValue {
			if name == "x" {
				*log = append(*log, "post:"+name)
				return ds.NewIntVal(47)
			}
			return doCompute(curVal)
		}
	}
}

func c17MoreRun(c c17Case, res *harn.Result, viol func(sig, what string), newVM func() *ds.Context) {
	switch c.Kind {
	case "stream-expr":
		vm := newVM()
		vm.Config.OpCountLimit = 20000
		consumed := map[string]bool{}
		calls := 0
		_ = vm.RegCustomDiceParser(func(ctx *ds.Context, st *ds.CustomDiceStream) (*ds.CustomDiceParseResult, error) {
			r, ok := st.Read()
			if !ok {
				return &ds.CustomDiceParseResult{Matched: false}, nil
			}
			if r != 'R' {
				st.Unread()
				return &ds.CustomDiceParseResult{Matched: false}, nil
			}
			v, ok, err := st.ReadExpr("")
			if err != nil {
				st.ResetAttempt()
				return &ds.CustomDiceParseResult{Matched: false}, nil
			}
			if !ok {
				st.ResetAttempt()
				return &ds.CustomDiceParseResult{Matched: false}, nil
			}
			st.Commit()
			_ = st.Remaining()
			cur := st.Current()
			if st.Consumed() != len(cur) {
				panic("Consumed() disagrees with Current()")
			}
			consumed[cur] = true
			return &ds.CustomDiceParseResult{Matched: true, Groups: []string{cur}, Payload: v}, nil
		}, func(ctx *ds.Context, groups []string, payload any) (*ds.VMValue, string, error) {
			calls++
			cv, _ := payload.(*ds.VMValue)
			if cv == nil {
				return nil, "", fmt.Errorf("payload lost")
			}
			ret := cv.ComputedExecute(ctx, &ds.BufferSpan{})
			if ctx.Error != nil {
				err := ctx.Error
				ctx.Error = nil
				return nil, "", err
			}
			return ret, "", nil
		})
		got := c17Eval(vm, c.Src)
		if got.panicSite != "" {
			viol(got.panicSite, fmt.Sprintf("program %q with the R<expr> stream parser: panic", c.Src))
			return
		}
		if got.err != "" {
			res.Outcome = "stream-expr/rejected"
			return
		}
		if calls == 0 {
			res.Outcome = "stream-expr/no operand"
			return
		}
		res.Outcome = "stream-expr/evaluated"
		if c.Tmpl == "" {
			return // adversarial / token families: totality only (the text consumed by ReadExpr is not under our control)
		}
		// reference: each consumed R<T> written as (<T>), longest first
		var ts []string
		for t := range consumed {
			ts = append(ts, t)
		}
		sort.Slice(ts, func(i, j int) bool { return len(ts[i]) > len(ts[j]) || (len(ts[i]) == len(ts[j]) && ts[i] < ts[j]) })
		refSrc := c.Src
		for _, t := range ts {
			refSrc = strings.ReplaceAll(refSrc, t, "("+t[1:]+")")
		}
		if strings.Contains(refSrc, "R") {
			return // nested / unconsumed R left: no simple reference
		}
		rv := newVM()
		rv.Config.OpCountLimit = 20000
		ref := c17Eval(rv, refSrc)
		if ref.err != "" || ref.panicSite != "" {
			return
		}
		if got.ret != ref.ret {
			viol("C17:stream-expr-value", fmt.Sprintf("program %q gives %s; with the operand(s) written as parenthesised expressions (%q) it gives %s", c.Src, got.ret, refSrc, ref.ret))
		}
	case "acting-hooks":
		var log []string
		vm := newVM()
		c17InstallActing(vm, c.Ext, &log)
		got := c17Eval(vm, c.Src)
		if got.panicSite != "" {
			viol(got.panicSite, fmt.Sprintf("program %q with acting hook %d: panic", c.Src, c.Ext))
			return
		}
		res.Outcome = fmt.Sprintf("acting-hooks/%d/acted=%v", c.Ext, len(log) > 0)
		base := c17Eval(newVM(), c.Src)
		if len(log) == 0 {
			// the hook never acted: the run must equal the run without hooks
			if got.err != base.err || got.ret != base.ret || got.attrs != base.attrs || got.rest != base.rest {
				viol(fmt.Sprintf("C17:hook-did-not-act-but-result-differs:%d", c.Ext), fmt.Sprintf("program %q: hook %d never fired, yet %+v vs %+v", c.Src, c.Ext, got, base))
			}
			return
		}
		// the hook acted; what must hold regardless of the program:
		switch c.Ext {
		case hookPreOverwrite, hookPreRename, hookPostReplace:
			// load hooks never change what is stored under names the program does not assign
			if !strings.Contains(c.Src, "=") && !strings.Contains(c.Src, "store(") && !strings.Contains(c.Src, "^st") && got.err == "" && base.err == "" && got.attrs != base.attrs {
				viol(fmt.Sprintf("C17:load-hook-changed-variables:%d", c.Ext), fmt.Sprintf("program %q assigns nothing, but the variables differ: %s vs %s", c.Src, got.attrs, base.attrs))
			}
		case hookStoreSolved:
			// a swallowed store leaves x as the prelude set it
			if v, ok := vm.Attrs.Load("x"); !ok || drv.Canon(v) != "2" {
				viol("C17:solved-store-reached-variables", fmt.Sprintf("program %q: the store hook reported every store to x as solved, yet x is %s", c.Src, drv.Canon(v)))
			}
		case hookStoreOverwrite:
			if v, ok := vm.Attrs.Load("x"); got.err == "" && (!ok || (drv.Canon(v) != "43" && drv.Canon(v) != "2")) {
				viol("C17:store-overwrite-ignored", fmt.Sprintf("program %q: the store hook replaced every value stored to x by 43, yet x is %s", c.Src, drv.Canon(v)))
			}
		}
		// differential reference for the three hooks whose effect can be written in the language itself
		var refSrc string
		switch c.Ext {
		case hookPreOverwrite, hookPostReplace:
			// not expressible by renaming when the program also assigns x; restrict to programs that only read x
			if !c17HookRefOK(c.Src) {
				return
			}
			refSrc = "zq"
		case hookPreRename:
			if !c17HookRefOK(c.Src) {
				return
			}
			refSrc = "xa"
		default:
			return
		}
		rv := newVM()
		val := map[int]string{hookPreOverwrite: "41", hookPostReplace: "47"}[c.Ext]
		if refSrc == "zq" {
			if err := rv.Run("zq = " + val); err != nil {
				panic(err)
			}
		}
		ref := c17Eval(rv, c17RenameX(c.Src, refSrc))
		if (got.err == "") != (ref.err == "") || got.ret != ref.ret {
			viol(fmt.Sprintf("C17:acting-load-hook-value:%d", c.Ext), fmt.Sprintf("program %q with every read of x answered by the hook gives (%s, %s); the program with x written as %s gives (%s, %s)", c.Src, got.err, got.ret, refSrc, ref.err, ref.ret))
		}
	}
}

// c17HookRefOK: programs that only READ the global x, so that the hook's effect can be written as a renaming.
func c17HookRefOK(src string) bool {
	for _, bad := range []string{"x =", "store('x'", "^st", "this", "'x'", "func g(x)", "xc"} { // xc: its body (prelude) reads x too
		if strings.Contains(src, bad) {
			return false
		}
	}
	return true
}

// c17RenameX rewrites the stand-alone identifier x (not xa, xd, xs, xf, xc, nor .x attribute names).
func c17RenameX(src, to string) string {
	var sb strings.Builder
	isId := func(b byte) bool { return b == '_' || b >= 0x80 || (b >= '0' && b <= '9') || (b >= 'a' && b <= 'z') || (b >= 'A' && b <= 'Z') }
	for i := 0; i < len(src); i++ {
		if src[i] == 'x' && (i == 0 || (!isId(src[i-1]) && src[i-1] != '.')) && (i+1 == len(src) || !isId(src[i+1])) {
			sb.WriteString(to)
			continue
		}
		sb.WriteByte(src[i])
	}
	return sb.String()
}

// "odd-extensions": extensions that behave in every way the extension API allows other than the plain one.
const (
	oddEmptyRegex      = iota // a regex that can match the empty string: never a match, never a loop
	oddNilResult              // a stream parser that returns (nil, nil)
	oddMatchedNothing         // a stream parser that reports Matched without consuming anything
	oddParserError            // a stream parser that returns an error when it sees "Q!"
	oddHandlerError           // handler of E<n> returns an error
	oddHandlerNil             // handler of E<n> returns (nil, "", nil)
	oddOptionalGroup          // E(\d+)(x)? : an unmatched optional group arrives as ""
	oddNoGroupsDisplay        // stream parser for C<a>T<b> that returns no Groups but a Display text, handler returns a detail text
	oddGroupsRewritten        // stream parser for C<digits>_<digits> that reports the text without the underscore as Groups[0]
	oddLeftmostFirst          // regexes whose leftmost-first match is shorter than their longest match: Z(\d+?) and Q(\d|\d\d)
	oddAlternation            // regex with a top-level alternation ZZ(\d+)|QQ(\d+): either alternative matches only at the operand start
	oddKinds
)

var c17OddPrograms = []string{
	"1", "x", "x + 1", "E5", "E5 + 1", "1 + E5", "[E5, E5]", "xf(E5)", "`{E5}`", "func g(){ E5 }; g()", "y = E5; y", "E5x", "E5x + 1", "E", "Ex", "Z", "ZZ + 1", "Q", "Q!", "1 + Q!", "[Q!]", "Q! + 1", "`{Q!}`", "func g(){ Q! }; g()",
	"C1_000", "C1_000 + 1", "[C1_000, 2]", "1 + C12_5 * 2", "C1_", "Z12", "Z12 + 1", "[Z1, Z12]", "Q12", "Q12 + 1", "Q1 + Q12", "(Z12)", "Z1 2",
	"QQ7", "1 + QQ7", "ZZ1 + QQ2", "'QQ7'", "1 // QQ7", "x + 'a QQ7 b'", "`{1} QQ7`", "1 + 'ZZ3' + QQ7", "y = 'QQ7'; y", "xQQ7", "[1, 'QQ7', QQ7]", "1 +\nQQ7", "'ZZ1' // QQ2",
	"C1T2", "C1T2 + 1", "1 + C1T2", "[C1T2]", "C1T", "C1", "2d6 + E5", "E5 ? 1 : 2", "0 ? E5 : 2", "1 ? 2 : E5", "&q = E5; q + q", "i = 0; while i < 2 { i = i + 1; E5 }", "^stA:E5", "^stA+E5", "E5\n+ 1", "E5; 7", "E5 E5", "E5E5",
}

func c17OddEnumerate(emit func(string, any)) {
	for _, p := range c17OddPrograms {
		for k := 0; k < oddKinds; k++ {
			emit("odd-extensions", c17Case{Kind: "odd-extensions", Src: p, Ext: k})
		}
	}
}

func c17OddRun(c c17Case, res *harn.Result, viol func(sig, what string), newVM func() *ds.Context) {
	vm := newVM()
	calls := 0
	five := func(ctx *ds.Context, groups []string, payload any) (*ds.VMValue, string, error) {
		calls++
		return ds.NewIntVal(5), "", nil
	}
	var seenGroups [][]string
	switch c.Ext {
	case oddEmptyRegex:
		_ = vm.RegCustomDice(`Z*`, five)
	case oddNilResult:
		_ = vm.RegCustomDiceParser(func(ctx *ds.Context, st *ds.CustomDiceStream) (*ds.CustomDiceParseResult, error) {
			st.Read()
			return nil, nil
		}, five)
	case oddMatchedNothing:
		_ = vm.RegCustomDiceParser(func(ctx *ds.Context, st *ds.CustomDiceStream) (*ds.CustomDiceParseResult, error) {
			return &ds.CustomDiceParseResult{Matched: true}, nil
		}, five)
	case oddParserError:
		_ = vm.RegCustomDiceParser(func(ctx *ds.Context, st *ds.CustomDiceStream) (*ds.CustomDiceParseResult, error) {
			if r, ok := st.Read(); ok && r == 'Q' {
				if r2, ok2 := st.Peek(); ok2 && r2 == '!' {
					return nil, fmt.Errorf("custom parser refuses Q!")
				}
			}
			st.ResetAttempt()
			return &ds.CustomDiceParseResult{Matched: false}, nil
		}, five)
	case oddHandlerError:
		_ = vm.RegCustomDice(`E(\d+)`, func(ctx *ds.Context, groups []string, payload any) (*ds.VMValue, string, error) {
			calls++
			return nil, "", fmt.Errorf("handler refuses")
		})
	case oddHandlerNil:
		_ = vm.RegCustomDice(`E(\d+)`, func(ctx *ds.Context, groups []string, payload any) (*ds.VMValue, string, error) {
			calls++
			return nil, "", nil
		})
	case oddOptionalGroup:
		_ = vm.RegCustomDice(`E(\d+)(x)?`, func(ctx *ds.Context, groups []string, payload any) (*ds.VMValue, string, error) {
			calls++
			seenGroups = append(seenGroups, append([]string{}, groups...))
			return ds.NewIntVal(5), "", nil
		})
	case oddGroupsRewritten:
		_ = vm.RegCustomDiceParser(func(ctx *ds.Context, st *ds.CustomDiceStream) (*ds.CustomDiceParseResult, error) {
			fail := func() (*ds.CustomDiceParseResult, error) {
				st.ResetAttempt()
				return &ds.CustomDiceParseResult{Matched: false}, nil
			}
			if r, ok := st.Read(); !ok || r != 'C' {
				return fail()
			}
			a, ok := st.ReadDigits()
			if !ok {
				return fail()
			}
			if r, ok := st.Read(); !ok || r != '_' {
				return fail()
			}
			b, ok := st.ReadDigits()
			if !ok {
				return fail()
			}
			return &ds.CustomDiceParseResult{Matched: true, Groups: []string{"C" + a + b, a, b}}, nil
		}, func(ctx *ds.Context, groups []string, payload any) (*ds.VMValue, string, error) {
			calls++
			seenGroups = append(seenGroups, append([]string{}, groups...))
			return ds.NewIntVal(5), "", nil
		})
	case oddLeftmostFirst:
		h := func(ctx *ds.Context, groups []string, payload any) (*ds.VMValue, string, error) {
			calls++
			seenGroups = append(seenGroups, append([]string{}, groups...))
			return ds.NewIntVal(5), "", nil
		}
		_ = vm.RegCustomDice(`Z(\d+?)`, h)
		_ = vm.RegCustomDice(`Q(\d|\d\d)`, h)
	case oddAlternation:
		_ = vm.RegCustomDice(`ZZ(\d+)|QQ(\d+)`, func(ctx *ds.Context, groups []string, payload any) (*ds.VMValue, string, error) {
			calls++
			seenGroups = append(seenGroups, append([]string{}, groups...))
			return ds.NewIntVal(5), "", nil
		})
	case oddNoGroupsDisplay:
		_ = vm.RegCustomDiceParser(func(ctx *ds.Context, st *ds.CustomDiceStream) (*ds.CustomDiceParseResult, error) {
			if r, ok := st.Read(); !ok || r != 'C' {
				st.ResetAttempt()
				return &ds.CustomDiceParseResult{Matched: false}, nil
			}
			if _, ok := st.ReadDigits(); !ok {
				st.ResetAttempt()
				return &ds.CustomDiceParseResult{Matched: false}, nil
			}
			if r, ok := st.Read(); !ok || r != 'T' {
				st.ResetAttempt()
				return &ds.CustomDiceParseResult{Matched: false}, nil
			}
			if _, ok := st.ReadDigits(); !ok {
				st.ResetAttempt()
				return &ds.CustomDiceParseResult{Matched: false}, nil
			}
			return &ds.CustomDiceParseResult{Matched: true, Display: "SHOWN"}, nil
		}, func(ctx *ds.Context, groups []string, payload any) (*ds.VMValue, string, error) {
			calls++
			seenGroups = append(seenGroups, append([]string{}, groups...))
			return ds.NewIntVal(3), "HOW", nil
		})
	}
	got := c17Eval(vm, c.Src)
	if got.panicSite != "" {
		viol(got.panicSite, fmt.Sprintf("program %q with odd extension %d: panic", c.Src, c.Ext))
		return
	}
	base := c17Eval(newVM(), c.Src)
	same := got.err == base.err && got.ret == base.ret && got.rest == base.rest && got.attrs == base.attrs
	res.Outcome = fmt.Sprintf("odd/%d/calls>0=%v/err=%v", c.Ext, calls > 0, got.err != "")
	hasE := strings.Contains(c.Src, "E5")
	switch c.Ext {
	case oddEmptyRegex, oddNilResult, oddMatchedNothing:
		if c.Ext == oddEmptyRegex && strings.Contains(c.Src, "Z") {
			break // Z* matches a run of Z non-emptily: there it acts
		}
		if calls != 0 || !same {
			viol(fmt.Sprintf("C17:odd-extension-not-transparent:%d", c.Ext), fmt.Sprintf("program %q: an extension that can never match ran %d handlers; result %+v vs %+v", c.Src, calls, got, base))
		}
	case oddParserError:
		if strings.Contains(c.Src, "Q!") {
			if got.err == "" && strings.HasPrefix(strings.TrimLeft(c.Src, "1 +[`{"), "Q!") && !strings.Contains(c.Src, "func") {
				viol("C17:parser-error-lost", fmt.Sprintf("program %q: the custom parser returned an error at the operand, the run reports success (%s)", c.Src, got.ret))
			}
		} else if !same {
			viol("C17:odd-extension-not-transparent:3", fmt.Sprintf("program %q: %+v vs %+v", c.Src, got, base))
		}
	case oddHandlerError, oddHandlerNil:
		if calls > 0 && got.err == "" {
			viol("C17:handler-failure-lost", fmt.Sprintf("program %q: the handler failed (%d calls), the run reports success (%s)", c.Src, calls, got.ret))
		}
		if !hasE && !same {
			viol(fmt.Sprintf("C17:odd-extension-not-transparent:%d", c.Ext), fmt.Sprintf("program %q: %+v vs %+v", c.Src, got, base))
		}
	case oddOptionalGroup:
		for _, g := range seenGroups {
			if len(g) != 3 || g[1] != "5" || (g[2] != "" && g[2] != "x") || g[0] != "E5"+g[2] {
				viol("C17:groups", fmt.Sprintf("program %q: groups %q for the pattern E(\\d+)(x)?", c.Src, g))
			}
		}
	case oddGroupsRewritten:
		// what the parser consumed is what the operand consumes, whatever text it reports as Groups[0]
		if strings.Contains(c.Src, "C1_000") || strings.Contains(c.Src, "C12_5") {
			ref := c17Eval(newVM(), strings.NewReplacer("C1_000", "     5", "C12_5", "    5").Replace(c.Src))
			if got.err != ref.err || got.ret != ref.ret || got.rest != ref.rest {
				viol("C17:operand-value-not-used-like-a-number", fmt.Sprintf("program %q gives (%s, %s, rest %q); with the operand written as the number 5 it gives (%s, %s, rest %q)", c.Src, got.err, got.ret, got.rest, ref.err, ref.ret, ref.rest))
			}
			for _, g := range seenGroups {
				if len(g) != 3 || (g[0] != "C1000" && g[0] != "C125") {
					viol("C17:groups", fmt.Sprintf("program %q: the parser's groups %q were not handed on unchanged", c.Src, g))
				}
			}
		} else if !same {
			viol("C17:odd-extension-not-transparent:8", fmt.Sprintf("program %q: %+v vs %+v", c.Src, got, base))
		}
	case oddLeftmostFirst:
		// Go's regexp semantics as compiled by the host (leftmost-first): Z(\d+?) matches one digit, Q(\d|\d\d) one digit
		for _, g := range seenGroups {
			if len(g) != 2 || len(g[1]) != 1 || (g[0] != "Z"+g[1] && g[0] != "Q"+g[1]) {
				viol("C17:groups", fmt.Sprintf("program %q: groups %q are not the leftmost-first match of the registered pattern", c.Src, g))
			}
		}
		if strings.ContainsAny(c.Src, "ZQ") && !strings.Contains(c.Src, "QQ") && !strings.Contains(c.Src, "ZZ") {
			// Z12 is the operand Z1 followed by the text "2"
			ref := c17Eval(newVM(), strings.NewReplacer("Z1", "(5)", "Q1", "(5)").Replace(c.Src))
			if got.err != ref.err || got.ret != ref.ret || got.rest != ref.rest {
				viol("C17:operand-value-not-used-like-a-number", fmt.Sprintf("program %q gives (%s, %s, rest %q); with each one-digit operand written as (5) it gives (%s, %s, rest %q)", c.Src, got.err, got.ret, got.rest, ref.err, ref.ret, ref.rest))
			}
		}
	case oddAlternation:
		// occurrences at an operand start (outside string literals, template text and comments) are the only ones that act
		want := map[string]int{"QQ7": 1, "1 + QQ7": 1, "ZZ1 + QQ2": 2, "1 + 'ZZ3' + QQ7": 1, "[1, 'QQ7', QQ7]": 1, "1 +\nQQ7": 1}[c.Src]
		if got.err == "" && calls != want {
			viol("C17:handler-call-count", fmt.Sprintf("program %q with the pattern ZZ(\\d+)|QQ(\\d+): handler ran %d times, %d operands start with a match", c.Src, calls, want))
		}
		for _, g := range seenGroups {
			if len(g) != 3 || !(g[0] == "ZZ"+g[1] && g[2] == "" || g[0] == "QQ"+g[2] && g[1] == "") || !strings.Contains(c.Src, g[0]) {
				viol("C17:groups", fmt.Sprintf("program %q: groups %q are not the text of one alternative", c.Src, g))
			}
		}
		if want == 0 && !same {
			viol("C17:odd-extension-not-transparent:8", fmt.Sprintf("program %q has no operand that starts with a match: %+v vs %+v", c.Src, got, base))
		}
	case oddNoGroupsDisplay:
		for _, g := range seenGroups {
			if len(g) != 1 || g[0] != "C1T2" {
				viol("C17:groups", fmt.Sprintf("program %q: a parser that returns no groups must give the handler the matched text, got %q", c.Src, g))
			}
		}
		if c.Src == "C1T2 + 1" && got.err == "" && !strings.Contains(got.detail, "HOW") {
			viol("C17:handler-detail-text-lost", fmt.Sprintf("program %q: the handler's detail text does not appear in the process text %q", c.Src, got.detail))
		}
	}
}
