package checks

import (
	"errors"
	"encoding/json"
	"fmt"
	"reflect"
	"strings"
	"time"

	ds "github.com/sealdice/dicescript"
	"verifmc/drv"
	"verifmc/gen"
	"verifmc/harn"
)

// C16 — disabled syntax stays disabled.

type c16Case struct {
	Srcs []string
	Cfg  drv.Cfg
	// Cfgs (optional): the configuration put in force before input #i (the host flips switches between runs on one VM)
	Cfgs []drv.Cfg `json:",omitempty"`
	// Stored: the VM's variables hold values that have never been compiled (as restored from a snapshot / created by the
	// host): function sf() { b3 + f + 2c5 + 3a5 }, computed sc = p1 + 2a10; an input that starts with "\x00expr:" goes to RunExpr
	Stored bool `json:",omitempty"`
	// RDice: the host registered a stream-parsed custom dice R<expression> (CustomDiceStream.ReadExpr): its operand is
	// program text like any other
	RDice bool `json:",omitempty"`
	// ZeroDice: the host registered a stream parser that reports a match without consuming anything (never a match)
	ZeroDice bool `json:",omitempty"`
}

var gateTokens = []string{
	"a", "b", "c", "d", "f", "p", "k", "q", "m", "A", "B", "C", "F", "P",
	"1", "2", "10", "(", ")", "+", " ", "\n", "x", "技能", "=", ";", "{", "}",
	"if ", "while ", "func ", "return ", "`", "{%", "&", "|",
	"// #EnableDice coc true\n", "// #EnableDice wod true\n", "// #EnableDice fate true\n", "// #EnableDice doublecross true\n",
	"// #EnableDice coc false\n", "// #EnableDice wod false\n",
}

var gateTokensSmall = []string{"a", "b", "c", "f", "p", "k", "m", "1", "2", "10", "(", ")", " ", "x", "=", ";", "{", "}", "if ", "func ", "// #EnableDice coc true\n", "// #EnableDice wod true\n"}

var famOps = map[string][]string{
	"coc":         {"coc.bonus", "coc.penalty"},
	"wod":         {"wod.init", "wod.pool", "wod.points", "wod.threshold", "wod.thresholdQ", "dice.wod"},
	"fate":        {"dice.fate"},
	"doublecross": {"dc.setInit", "dc.setPool", "dc.setPoints", "dice.dc"},
}

var stmtOps = []string{"push.func", "block.push", "block.pop", "ret"}

func c16Enumerate(tier string, seed int64, emit func(string, any)) {
	thorough := tier == "thorough"
	famCfgs := func(extra func(c *drv.Cfg)) []drv.Cfg {
		var out []drv.Cfg
		for bits := 0; bits < 16; bits++ {
			c := drv.Cfg{CoC: bits&1 != 0, WoD: bits&2 != 0, Fate: bits&4 != 0, DC: bits&8 != 0, OpLimit: 5000}
			if extra != nil {
				extra(&c)
			}
			out = append(out, c)
		}
		return out
	}
	plain := famCfgs(nil)
	var cube []drv.Cfg
	for fl := 0; fl < 8; fl++ {
		fl := fl
		cube = append(cube, famCfgs(func(c *drv.Cfg) { c.NoStmts, c.NoNDice, c.NoBitwise = fl&1 != 0, fl&2 != 0, fl&4 != 0 })...)
	}
	gen.StringsUpTo(gateTokens, 2, func(s string) {
		for _, c := range cube {
			emit("tokens<=2 x 128 flag settings", c16Case{Srcs: []string{s}, Cfg: c})
		}
	})
	quick3 := []drv.Cfg{plain[0], plain[1], plain[2], plain[4], plain[8], plain[15^1], plain[15^2]}
	strict := plain[0]
	strict.NoStmts, strict.NoNDice, strict.NoBitwise = true, true, true
	quick3 = append(quick3, strict)
	if thorough {
		quick3 = append(plain, strict)
	}
	gen.Strings(gateTokens, 3, func(s string) {
		for _, c := range quick3 {
			emit("tokens=3", c16Case{Srcs: []string{s}, Cfg: c})
		}
	})
	if thorough {
		gen.Strings(gateTokensSmall, 4, func(s string) {
			for _, c := range []drv.Cfg{plain[0], strict, plain[1], plain[2]} {
				emit("tokens=4/small", c16Case{Srcs: []string{s}, Cfg: c})
			}
		})
	}
	var stCfgs []drv.Cfg
	for _, base := range []drv.Cfg{plain[0], plain[15]} {
		for fl := 0; fl < 8; fl++ {
			c := base
			c.NoStmts, c.NoNDice, c.NoBitwise = fl&1 != 0, fl&2 != 0, fl&4 != 0
			stCfgs = append(stCfgs, c)
		}
	}
	c16StInputs(func(s string) {
		for _, c := range stCfgs {
			emit("st edit lists", c16Case{Srcs: []string{s, "if 1 {2}", "2d", "1&3", "b"}, Cfg: c})
		}
	})
	// sequences: a run with macros must not change what later runs may do
	probes := []string{"b", "p1", "2a10", "a10", "f", "2c10", "if 1 {2}", "func g(){1}", "2d", "1&3", "x = b; x", "&y = f; y"}
	firsts := []string{}
	gen.StringsUpTo(gateTokensSmall, 2, func(s string) {
		if strings.Contains(s, "#EnableDice") {
			macro := "// #EnableDice coc true\n// #EnableDice wod true\n// #EnableDice fate true\n// #EnableDice doublecross true\n"
	firsts = append(firsts, macro+"b2 + 1/0", macro+"f + nosuch()", macro+"[1,2][5] + 2a10", macro+"2c10; x.y.z", macro+"`{% b %}{1/0}`", macro+"func g(){ b + 1/0 }; g()", macro+"&cc = p1 + [][0]; cc")
	firsts = append(firsts, s)
		}
	})
	macro := "// #EnableDice coc true\n// #EnableDice wod true\n// #EnableDice fate true\n// #EnableDice doublecross true\n"
	firsts = append(firsts, macro+"b2 + 1/0", macro+"f + nosuch()", macro+"[1,2][5] + 2a10", macro+"2c10; x.y.z", macro+"`{% b %}{1/0}`", macro+"func g(){ b + 1/0 }; g()", macro+"&cc = p1 + [][0]; cc")
	firsts = append(firsts,
		"// #EnableDice coc true\nfunc g(){b}",
		"// #EnableDice wod true\n&z = 2a10",
		"// #EnableDice fate true\nf +",
		"// #EnableDice doublecross true\n2c10 )",
		"// #EnableDice coc true\n`{% b %}`",
		"// #EnableDice coc true\n// #EnableDice coc false\nb",
	)
	for _, f := range firsts {
		for _, p := range probes {
			for _, c := range []drv.Cfg{plain[0], strict, plain[15]} {
				emit("sequences", c16Case{Srcs: []string{f, p}, Cfg: c})
				emit("sequences", c16Case{Srcs: []string{f, p, f, p}, Cfg: c})
			}
		}
	}
	// reconfiguration: the SAME source on ONE VM under a sequence of settings (all ordered pairs of 10 settings, and back)
	all := plain[15]
	rc := []drv.Cfg{plain[0], all, strict, plain[1], plain[2], plain[4], plain[8]}
	for _, f := range []func(c *drv.Cfg){func(c *drv.Cfg) { c.NoStmts = true }, func(c *drv.Cfg) { c.NoNDice = true }, func(c *drv.Cfg) { c.NoBitwise = true }} {
		c := all
		f(&c)
		rc = append(rc, c)
	}
	for _, p := range append(probes[:len(probes):len(probes)], "b + p1 + f + 2a10 + 2c10", "while 0 {}; 1", "`{% if 1 {2} %}`", "1|2", "2d + 1", "func g(){ b }; g()", "&z = f; z") {
		for _, c1 := range rc {
			for _, c2 := range rc {
				if cfgKey(c1) == cfgKey(c2) {
					continue
				}
				emit("reconfigured", c16Case{Srcs: []string{p, p, p}, Cfg: c1, Cfgs: []drv.Cfg{c1, c2, c1}})
			}
		}
	}
	// stored, never-compiled values whose bodies contain family letters, used from inputs with and without macros, and RunExpr
	uses := []string{"sf()", "sc", "sc + sf()", "\x00expr:b3 + f", "\x00expr:2c5 + 3a5 + p1", "\x00expr:sf() + sc", "b", "f"}
	for _, m := range []string{"", macro} {
		for _, u1 := range uses {
			for _, u2 := range uses {
				for _, c := range []drv.Cfg{plain[0], all, plain[1]} {
					first := m + strings.TrimPrefix(u1, "\x00expr:")
					if m == "" {
						first = u1
					}
					emit("stored values", c16Case{Srcs: []string{first, u2, u1}, Cfg: c, Stored: true})
				}
			}
		}
	}
	c16Late(emit, plain, strict)
	// the rest of one input run as the next input (a host that evaluates a line piece by piece); and a custom dice parser that
	// declines in an unusual way while a macro is in force
	for _, body := range []string{"1 b2", "1 f", "2 2a10", "1 2c10 + b", "x p1", "1 b2 f"} {
		for _, c := range []drv.Cfg{plain[0], plain[1], plain[4]} {
			emit("rest of an input run as the next input", c16Case{Srcs: []string{macro + body, "\x00rest", "b + f", "\x00rest"}, Cfg: c})
			emit("rest of an input run as the next input", c16Case{Srcs: []string{macro + body, "\x00rest"}, Cfg: c, ZeroDice: true})
			emit("declining custom dice under a macro", c16Case{Srcs: []string{macro + strings.Fields(body)[len(strings.Fields(body))-1], "b", "f + 2a10", macro + "(" + body, "p1 + 2c10"}, Cfg: c, ZeroDice: true})
		}
	}
}

func c16Late(emit func(string, any), plain []drv.Cfg, strict drv.Cfg) {
	all := plain[15]
	cfgs := []drv.Cfg{plain[0], all, strict}
	for _, f := range []func(c *drv.Cfg){func(c *drv.Cfg) { c.NoStmts = true }, func(c *drv.Cfg) { c.NoNDice = true }, func(c *drv.Cfg) { c.NoBitwise = true }} {
		c := all
		f(&c)
		cfgs = append(cfgs, c)
	}
	for _, t := range c16FeatureTexts {
		for _, c := range cfgs {
			// RunExpr, stored never-compiled function / computed value with this body (sg / sk), the operand of an R<expr> custom dice
			emit("text compiled away from the main parse", c16Case{Srcs: []string{"\x00expr:" + t, "1", "\x00expr:" + t}, Cfg: c})
			emit("text compiled away from the main parse", c16Case{Srcs: []string{"\x00body:" + t, "sg()", "sk", "sg() + 0"}, Cfg: c, Stored: true})
			emit("text compiled away from the main parse", c16Case{Srcs: []string{"R(" + t + ")", "1 + R(" + t + ")", "[R" + t + "]"}, Cfg: c, RDice: true})
			d := c
			d.DefExpr = t
			emit("text compiled away from the main parse", c16Case{Srcs: []string{"2d6", "func g(){ 1 }; g()"}, Cfg: d})
		}
	}
}

func cfgKey(c drv.Cfg) string { return c.String() }

// texts that use each switchable feature, for the places where program text is compiled away from the main parse
var c16FeatureTexts = []string{"b3 + f", "2c5 + 3a5 + p1", "if 1 { 2 }", "i = 0; while i < 2 { i = i + 1 }; i", "func q(){ 1 }; q()", "`{% if 1 { 2 } %}`", "2d", "d + 1", "1 | 2", "6 & 3", "1 + 2"}

// st edit lists: values parsed under the st flag push (statements / implicit dice / bitwise disabled inside values)
func c16StInputs(emit func(s string)) {
	vals := []string{"1", "(1)", "(1+2)", "2d6", "(`{% if 1 { 2 } %}`)", "`{% if 1 { 2 } %}`", "(`{% while 0 { } %}`)", "(`{% func g(){1} %}`)", "(2d)", "2d", "(1&3)", "1&3", "(b)", "b", "(2a10)", "f", "(`{b}`)"}
	for _, a := range vals {
		emit("^stx=" + a)
		emit("^stx+" + a)
		emit("^st&x=" + a)
		for _, b := range vals {
			emit("^stx=" + a + " y=" + b)
			emit("^stx=" + a + ",y=" + b)
			emit("^stx:" + a + " &y=" + b)
			emit("^stx+" + a + " y+" + b)
		}
	}
}

func macroEnables(src, fam string) bool {
	return strings.Contains(src, "#EnableDice") && strings.Contains(src, fam)
}

func c16Run(raw json.RawMessage) harn.Result {
	var c c16Case
	if err := json.Unmarshal(raw, &c); err != nil {
		panic(err)
	}
	res := harn.Result{Stats: map[string]int64{}}
	vm := drv.NewVM(c.Cfg)
	ds.VerifRollHook = nil
	var dispatched map[string]int
	ds.VerifStepHook = func(ctx *ds.Context, pc, top, bd, fd, dd, nd int) {
		dispatched[ds.VerifOpName(ctx.VerifOpAt(pc))]++
	}
	defer func() { ds.VerifStepHook = nil }()
	viol := func(sig, what string) {
		if len(res.Violations) < 3 {
			res.Violations = append(res.Violations, harn.Violation{Signature: sig, What: fmt.Sprintf("cfg[%s] inputs %q: %s", c.Cfg, c.Srcs, what)})
		}
	}
	if c.Stored {
		vm.Attrs.Store("sf", ds.NewFunctionValRaw(&ds.FunctionData{Expr: "b3 + f + 2c5 + 3a5", Name: "sf"}))
		vm.Attrs.Store("sc", ds.NewComputedVal("p1 + 2a10"))
	}
	if c.RDice {
		_ = vm.RegCustomDiceParser(func(ctx *ds.Context, st *ds.CustomDiceStream) (*ds.CustomDiceParseResult, error) {
			if r, ok := st.Read(); !ok || r != 'R' {
				st.ResetAttempt()
				return &ds.CustomDiceParseResult{Matched: false}, nil
			}
			v, ok, err := st.ReadExpr("")
			if err != nil || !ok {
				st.ResetAttempt()
				return &ds.CustomDiceParseResult{Matched: false}, nil
			}
			return &ds.CustomDiceParseResult{Matched: true, Payload: v}, nil
		}, func(ctx *ds.Context, groups []string, payload any) (*ds.VMValue, string, error) {
			cv, _ := payload.(*ds.VMValue)
			if cv == nil {
				return nil, "", errors.New("payload lost")
			}
			ret := cv.ComputedExecute(ctx, &ds.BufferSpan{})
			if ctx.Error != nil {
				err := ctx.Error
				ctx.Error = nil
				return nil, "", err
			}
			return ret, "", nil
		})
	}
	if c.ZeroDice {
		_ = vm.RegCustomDiceParser(func(ctx *ds.Context, st *ds.CustomDiceStream) (*ds.CustomDiceParseResult, error) {
			return &ds.CustomDiceParseResult{Matched: true}, nil
		}, func(ctx *ds.Context, groups []string, payload any) (*ds.VMValue, string, error) {
			return ds.NewIntVal(1), "", nil
		})
	}
	cur := c.Cfg
	for i, src := range c.Srcs {
		if src == "\x00rest" {
			src = vm.RestInput // no macro in it: the switches of the VM decide
			if strings.TrimSpace(src) == "" {
				continue
			}
		}
		if i < len(c.Cfgs) {
			cur = c.Cfgs[i]
			cur.Apply(vm)
		}
		enabled := map[string]bool{"coc": cur.CoC, "wod": cur.WoD, "fate": cur.Fate, "doublecross": cur.DC}
		before := vm.Config
		dispatched = map[string]int{}
		var perr, rerr error
		site, p := harn.Guard(func() {
			if strings.HasPrefix(src, "\x00body:") {
				body := strings.TrimPrefix(src, "\x00body:")
				vm.Attrs.Store("sg", ds.NewFunctionValRaw(&ds.FunctionData{Expr: body, Name: "sg"}))
				vm.Attrs.Store("sk", ds.NewComputedVal(body))
				perr = errors.New("(host stores values: nothing parsed)")
				return
			}
			if strings.HasPrefix(src, "\x00expr:") {
				_, rerr = vm.RunExpr(strings.TrimPrefix(src, "\x00expr:"), false)
				perr = errors.New("(RunExpr: no top-level listing)")
				return
			}
			// through Run, the entry point hosts use (odd cases: Parse + RunAfterParsed, the two-step form)
			if (len(src)+i)%2 == 0 || len(c.Cfgs) > 0 {
				if err := vm.Run(src); err != nil {
					if drv.IsSyntaxError(err) {
						perr = err
					} else {
						rerr = err
					}
				}
				return
			}
			perr = vm.Parse(src)
			if perr == nil {
				rerr = vm.RunAfterParsed()
			}
		})
		if p {
			viol(site, "panic")
			return res
		}
		_ = rerr
		// compiled listing incl. nested bodies
		listed := map[string]int{}
		negJump := false
		if perr == nil {
			var walk func(ops []ds.VerifOp, depth int)
			walk = func(ops []ds.VerifOp, depth int) {
				for _, op := range ops {
					listed[op.Name]++
					if (op.Name == "jmp" || op.Name == "je" || op.Name == "jne" || op.Name == "je.dup") && op.HasInt && op.Int < 0 {
						negJump = true
					}
					if op.Body != nil && depth < 8 {
						if body, ok := ds.VerifValueCode(op.Body); ok {
							walk(body, depth+1)
						}
					}
				}
			}
			walk(vm.VerifCode(), 0)
			res.Nontrivial = true
			res.Outcome = "accepted"
		} else if res.Outcome == "" {
			res.Outcome = "rejected"
		}
		for fam, ops := range famOps {
			if enabled[fam] || macroEnables(src, fam) {
				continue
			}
			for _, op := range ops {
				if listed[op] > 0 {
					viol("C16:compiled-disabled-family:"+fam, fmt.Sprintf("input #%d compiles %s although %s dice are disabled and the input has no enabling macro", i, op, fam))
				}
				if dispatched[op] > 0 {
					viol("C16:executed-disabled-family:"+fam, fmt.Sprintf("input #%d executes %s although %s dice are disabled", i, op, fam))
				}
			}
		}
		if cur.NoStmts {
			for _, op := range stmtOps {
				if listed[op] > 0 || dispatched[op] > 0 {
					viol("C16:stmt-op-with-DisableStmts", fmt.Sprintf("input #%d compiles/executes %s although statements are disabled", i, op))
				}
			}
			if negJump {
				viol("C16:loop-with-DisableStmts", fmt.Sprintf("input #%d compiles a backward jump although statements are disabled", i))
			}
		}
		if cur.NoNDice && (listed["push.def_expr"] > 0 || dispatched["push.def_expr"] > 0) {
			viol("C16:ndice-with-DisableNDice", fmt.Sprintf("input #%d compiles the implicit-sides dice form although it is disabled", i))
		}
		if cur.NoBitwise && (listed["&"]+listed["|"]+dispatched["&"]+dispatched["|"] > 0) {
			viol("C16:bitwise-with-DisableBitwiseOp", fmt.Sprintf("input #%d compiles a bitwise operator although it is disabled", i))
		}
		if len(c.Cfgs) > 0 && perr == nil {
			// a reconfigured VM compiles the input exactly as a fresh VM under the setting now in force
			fresh := drv.NewVM(cur)
			var ferr error
			if _, p := harn.Guard(func() { ferr = fresh.Parse(src) }); !p {
				if ferr != nil {
					viol("C16:reconfigured-vm-differs-from-fresh", fmt.Sprintf("input #%d is accepted after the switches were changed to [%s]; a fresh VM with these switches rejects it", i, cur))
				} else if a, b := vm.GetAsmText(), fresh.GetAsmText(); a != b {
					viol("C16:reconfigured-vm-differs-from-fresh", fmt.Sprintf("input #%d after the switches were changed to [%s] compiles to\n%s\na fresh VM with these switches compiles it to\n%s", i, cur, a, b))
				}
			}
		} else if len(c.Cfgs) > 0 && perr != nil {
			fresh := drv.NewVM(cur)
			if ferr := fresh.Parse(src); ferr == nil {
				viol("C16:reconfigured-vm-differs-from-fresh", fmt.Sprintf("input #%d is rejected after the switches were changed to [%s]; a fresh VM with these switches accepts it", i, cur))
			}
		}
		after := vm.Config
		if !cfgEqual(before, after) {
			viol("C16:config-changed", fmt.Sprintf("input #%d changed the VM's configuration: before %+v after %+v", i, flagsOf(before), flagsOf(after)))
		}
	}
	return res
}

type flagView struct{ WoD, CoC, Fate, DC, NoBit, NoStmt, NoND, Div0, Min, Max bool }

func flagsOf(c ds.RollConfig) flagView {
	return flagView{c.EnableDiceWoD, c.EnableDiceCoC, c.EnableDiceFate, c.EnableDiceDoubleCross, c.DisableBitwiseOp, c.DisableStmts, c.DisableNDice, c.IgnoreDiv0, c.DiceMinMode, c.DiceMaxMode}
}

// cfgEqual compares every exported non-func field of the configuration.
func cfgEqual(a, b ds.RollConfig) bool {
	va, vb := reflect.ValueOf(a), reflect.ValueOf(b)
	t := va.Type()
	for i := 0; i < t.NumField(); i++ {
		f := t.Field(i)
		if !f.IsExported() || f.Type.Kind() == reflect.Func {
			continue
		}
		if !reflect.DeepEqual(va.Field(i).Interface(), vb.Field(i).Interface()) {
			return false
		}
	}
	return true
}

func init() {
	harn.Register(&harn.Check{
		ID:   "C16",
		Rule: "inputs: every token string up to the stated length over the gating alphabet (dice letters, digits, brackets, keywords, template openers, the #EnableDice macros) x all 2^4 family settings x DisableStmts/NDice/Bitwise, st edit lists of <= 2 edits over 17 value shapes (statement-bearing templates, implicit dice, bitwise, dice letters; the st value context pushes and pops flags) under 16 flag settings, each followed by probes on the same VM; plus run sequences (macro-bearing input — also ones that fail at run time — followed by probes on the same VM). Oracle: the compiled listing of the program and of every nested function/computed body, and every instruction dispatched at any sub-VM depth (VerifStep), contains no opcode of a disabled family unless the input itself carries the enabling macro; no statement opcodes / backward jumps under DisableStmts; no implicit-sides dice under DisableNDice; no bitwise opcodes under DisableBitwiseOp; the VM configuration is field-for-field unchanged by every run. Non-trivial = accepted by the parser; distinct by (sources, configuration).",
		Enumerate: c16Enumerate,
		Run:       c16Run,
		Budget:    map[string]time.Duration{"quick": 400 * time.Second, "thorough": 40 * time.Minute},
	})
}
