package checks

import (
	"bytes"
	"encoding/json"
	"fmt"
	"strings"
	"time"

	ds "github.com/sealdice/dicescript"
	xrand "golang.org/x/exp/rand"
	"verifmc/choice"
	"verifmc/drv"
	"verifmc/harn"
)

// C06 — seeded evaluation is reproducible and resumable.

type c06Case struct {
	Kind  string // interfere | resume
	Pre   string `json:",omitempty"`
	Src   string
	Stmts []string `json:",omitempty"`
	Seed  int64
	Def   string `json:",omitempty"` // DefaultDiceSideExpr
	Dev   int    `json:",omitempty"` // interfering actions per run
}

var c06Programs = []string{
	"d20", "3d6", "2d6k1", "4d6dl1", "2d20优势", "d", "3d", "2d6 + d4", "(2d3)d4", "2d3d4", "3d6min2max5",
	"f", "f + f", "b", "p2", "b2 + p", "2a10", "5a8k6", "3a6m6q2", "2c8", "4c7m9", "3c10",
	"[1,2,3,4,5].shuffle()", "[1,2,3,4,5].rand()", "[1,2,3,4,5].randSize(3)", "x = [1,2,3,4]; x.shuffle(); x", "[d6, d6, d6]", "[1..6].rand() + d6",
	"func g(){ 2d6 }; g() + g()", "func g(n){ n <= 0 ? 0 : d6 + g(n-1) }; g(3)", "&c = 2d6; c + c", "&c = [1,2,3].rand(); [c, c, c]", "`roll {2d6} and {d20}`", "`{% x = d6; x %}-{d6}`",
	"i = 0; s = 0; while i < 3 { s = s + d6; i = i + 1 }; s", "d6 > 3 ? d20 : d4", "if d6 > 3 { x = d20 } else { x = d4 }; x", "{'a': d6, 'b': d6}.a", "[2d6, 2d6]kh", "ceil(d6 / 2.0)", "d(d6)", "(d4)d(d6)k(d2)",
	"2c5 + 2a6 + f + b", "[3a9, 2c9, f, p]", "^stA:d6", "^st&A=d6 B:d6",
	"func g(){ [1,2,3,4].shuffle() }; g()", "func g(){ [1,2,3,4].rand() + [5,6,7].randSize(2)[0] }; g() + g()", "&c = [1,2,3,4].shuffle(); c", "func g(){ &k = [1,2,3].rand(); k + k }; g()", "`{[1,2,3,4].rand()}`",
	"[1..40].randSize(4)", "[1..16].randSize(2)", "[1..64].randSize(16)", "x = [1..100].randSize(25); [x[0], x[24]]", "[1..300].shuffle()[0:5]",
}

var c06Stmts = []string{"x = 2d6", "y = [1,2,3,4].shuffle()", "z = 1 + 3d6k2", "func g(){ d20 }; w = g()", "&c = d6; v = c + c", "u = 2c8 + 2a9", "t = [1,2,3].rand()", "s = `{d6}{f}`", "r = b2 + p", "&m = n9 || d100; &m.n9 = m; q = m"}

func c06Enumerate(tier string, seed int64, emit func(string, any)) {
	thorough := tier == "thorough"
	seeds := []int64{1, 2, 3, 4, 5, 6, 7, 8}
	if !thorough {
		seeds = seeds[:4]
	}
	for pi, p := range c06Programs {
		ps := seeds
		if !thorough && pi >= len(c06Programs)-5 {
			ps = seeds[:2] // the array-random-method programs added later: two seeds in the quick tier
		}
		for _, s := range ps {
			emit("interference/1 action anywhere", c06Case{Kind: "interfere", Src: p, Seed: s, Dev: 1})
			if thorough || s == 1 { // quick: one seed for the two-action placements (the placement, not the seed, is what varies)
				emit("interference/<=2 actions in the first 28 boundaries", c06Case{Kind: "interfere", Src: p, Seed: s, Dev: 2})
			}
			if thorough && len(p) <= 8 {
				emit("interference/<=3 actions", c06Case{Kind: "interfere", Src: p, Seed: s, Dev: 3})
			}
		}
		emit("interference/default-sides-expr", c06Case{Kind: "interfere", Src: p, Seed: 1, Def: "d4 + 2", Dev: 1})
		for si, s := range []int64{-1, -2, -3} { // all-zero, all-ones and undecodable seeds
			if thorough || (len(p)+si)%3 == 0 {
				emit("interference/special seeds", c06Case{Kind: "interfere", Src: p, Seed: s, Dev: 1})
			}
		}
	}
	for _, s := range seeds[:2] {
		emit("interference/default-sides-expr", c06Case{Kind: "interfere", Src: "d + 2d", Seed: s, Def: "2d6", Dev: 1})
		emit("interference/default-sides-expr", c06Case{Kind: "interfere", Src: "func g(){ 3d }; g()", Seed: s, Def: "[4,6,8].rand()", Dev: 1})
	}
	// lifecycle: re-seeding an already used context, and captured states that are HELD while the context keeps running
	for i := range c06Stmts {
		for j := range c06Stmts {
			for _, sd := range seeds[:2] {
				emit("lifecycle", c06Case{Kind: "lifecycle", Stmts: []string{c06Stmts[i], c06Stmts[j], c06Stmts[(i+j)%len(c06Stmts)]}, Seed: sd})
			}
			if (i+j)%3 == 0 {
				emit("lifecycle", c06Case{Kind: "lifecycle", Stmts: []string{c06Stmts[i], c06Stmts[j], c06Stmts[(i+j)%len(c06Stmts)]}, Seed: -1})
			}
		}
	}
	// one and the same value OBJECT (a host-side variable store outlives the VMs) evaluated first by another context, then by the
	// seeded context under test: its dice come from the context that evaluates it
	for _, body := range []string{"d100", "2d6 + d20", "[1,2,3,4].shuffle()", "[1,2,3,4,5].rand() + d6", "f + b + 2a9", "func q(){ d20 }; q() + d6"} {
		for _, first := range []int64{0, 41} { // the first context: unseeded, or seeded differently
			for _, sd := range seeds[:2] {
				emit("shared value object", c06Case{Kind: "shared", Src: body, Seed: sd, Dev: int(first)})
			}
		}
	}
	// resume: every split of every statement list of length <= 3
	n := len(c06Stmts)
	for i := 0; i < n; i++ {
		for j := 0; j < n; j++ {
			emit("resume", c06Case{Kind: "resume", Stmts: []string{c06Stmts[i], c06Stmts[j]}, Seed: 3})
			for k := 0; k < n; k++ {
				if !thorough && (i+j+k)%3 != 0 {
					continue
				}
				emit("resume", c06Case{Kind: "resume", Stmts: []string{c06Stmts[i], c06Stmts[j], c06Stmts[k]}, Seed: 5})
			}
		}
	}
}

type c06Obs struct {
	err, ret, detail string
	seed             []byte
	draws            int
	foreign          string
	st               []string
}

func (o c06Obs) String() string {
	return fmt.Sprintf("err=%q value=%s detail=%q state=%x draws=%d st=%v", o.err, o.ret, o.detail, o.seed, o.draws, o.st)
}

func (a c06Obs) same(b c06Obs) bool {
	return a.err == b.err && a.ret == b.ret && a.detail == b.detail && bytes.Equal(a.seed, b.seed) && a.draws == b.draws && strings.Join(a.st, ";") == strings.Join(b.st, ";")
}

var c06Other1, c06Other2 *ds.Context

// interfering actions on OTHER contexts and on the process-wide generators
func c06Act(k int) {
	switch k {
	case 1:
		c06Other1.VerifResetForRerun()
		_ = c06Other1.RunAfterParsed() // unseeded VM rolling 3d6 + [1,2,3].rand(): draws from the package-level generator
	case 2:
		c06Other2.VerifResetForRerun()
		_ = c06Other2.RunAfterParsed() // another seeded VM rolling 2d20 + 2c8
	case 3:
		ds.VerifSeedGlobal(11)
		xrand.Seed(11)
	case 4:
		ds.VerifSeedGlobal(12)
		xrand.Seed(12)
	case 5:
		_, _ = c06Other1.GetCurSeed()
		_, _ = c06Other2.GetCurSeed()
		_ = xrand.Intn(10)
	}
}

const c06Actions = 5

func c06Eval(c c06Case, vm *ds.Context, src string, cc *choice.Ctx) c06Obs {
	var o c06Obs
	vm.Config.CallbackSt = func(_type string, name string, val *ds.VMValue, extra *ds.VMValue, op string, detail string) {
		o.st = append(o.st, _type+"/"+name+"/"+drv.Canon(val))
	}
	inHook := false
	ds.VerifRollHook = func(s *xrand.PCGSource, sides ds.IntType) (ds.IntType, bool) {
		if inHook {
			return 0, false // draws of the interfering contexts
		}
		o.draws++
		if s != vm.RandSrc && o.foreign == "" {
			which := "another source"
			if s == nil {
				which = "the package-level generator (nil source)"
			}
			o.foreign = fmt.Sprintf("draw #%d (d%d) came from %s, not from the context's generator", o.draws, sides, which)
		}
		return 0, false
	}
	ds.VerifStepHook = func(ctx *ds.Context, pc, top, bd, fd, dd, nd int) {
		if cc == nil || inHook {
			return
		}
		if k := cc.Choose(c06Actions + 1); k != 0 {
			inHook = true
			c06Act(k)
			inHook = false
		}
	}
	defer func() { ds.VerifRollHook, ds.VerifStepHook = nil, nil }()
	if err := vm.Run(src); err != nil {
		o.err = err.Error()
	} else {
		o.ret = drv.Canon(vm.Ret)
		o.detail = vm.GetDetailText()
	}
	o.seed, _ = vm.GetCurSeed()
	return o
}

func c06NewVM(c c06Case, seedBytes []byte) *ds.Context {
	cfg := drv.AllOn()
	cfg.DefExpr = c.Def
	cfg.OpLimit = 30000
	vm := &ds.Context{Seed: seedBytes}
	vm.Init()
	cfg.Apply(vm)
	return vm
}

func deepClone(v *ds.VMValue, seen map[any]*ds.VMValue) *ds.VMValue {
	if v == nil {
		return nil
	}
	switch v.TypeId {
	case ds.VMTypeArray:
		ad, _ := v.ReadArray()
		if c, ok := seen[ad]; ok {
			return c
		}
		out := ds.NewArrayVal()
		seen[ad] = out
		od, _ := out.ReadArray()
		for _, e := range ad.List {
			od.List = append(od.List, deepClone(e, seen))
		}
		return out
	case ds.VMTypeDict:
		dd, _ := v.ReadDictData()
		if c, ok := seen[dd]; ok {
			return c
		}
		out := ds.NewDictVal(nil).V()
		seen[dd] = out
		od, _ := out.ReadDictData()
		dd.Dict.Range(func(k string, e *ds.VMValue) bool {
			od.Dict.Store(k, deepClone(e, seen))
			return true
		})
		return out
	case ds.VMTypeComputedValue:
		cd, _ := v.ReadComputed()
		n := ds.NewComputedVal(cd.Expr)
		if cd.Attrs != nil {
			nd, _ := n.ReadComputed()
			nd.Attrs = &ds.ValueMap{}
			cd.Attrs.Range(func(k string, e *ds.VMValue) bool {
				nd.Attrs.Store(k, deepClone(e, seen))
				return true
			})
		}
		return n
	}
	return v.Clone()
}

func c06Run(raw json.RawMessage) harn.Result {
	var c c06Case
	if err := json.Unmarshal(raw, &c); err != nil {
		panic(err)
	}
	res := harn.Result{Stats: map[string]int64{}, Nontrivial: true, Outcome: c.Kind}
	viol := func(sig, what string) {
		if len(res.Violations) < 2 {
			res.Violations = append(res.Violations, harn.Violation{Signature: sig, What: what})
		}
	}
	seedBytes := drv.SeedBytes(c.Seed)
	c06Other1 = drv.NewVM(drv.AllOn())
	oc := drv.AllOn()
	oc.Seed = 99
	c06Other2 = drv.NewVM(oc)
	_ = c06Other1.Parse("3d6 + [1,2,3].rand()")
	_ = c06Other2.Parse("2d20 + 2c8")
	switch c.Kind {
	case "interfere":
		ds.VerifSeedGlobal(1)
		xrand.Seed(1)
		base := c06Eval(c, c06NewVM(c, seedBytes), c.Src, nil)
		if base.draws == 0 && base.err == "" {
			res.Nontrivial = false
		}
		if base.foreign != "" {
			viol("C06:foreign-source", fmt.Sprintf("%q seed %d: %s", c.Src, c.Seed, base.foreign))
			return res
		}
		// a different state of the process-wide generators must not matter
		for k := uint64(2); k <= 4; k++ {
			ds.VerifSeedGlobal(k)
			xrand.Seed(k)
			o := c06Eval(c, c06NewVM(c, seedBytes), c.Src, nil)
			if !o.same(base) {
				viol("C06:depends-on-global-generator", fmt.Sprintf("%q seed %d: with the process-wide generators seeded %d instead of 1 the outcome changes\n  base: %s\n  now : %s", c.Src, c.Seed, k, base, o))
				return res
			}
		}
		// every placement of <= Dev interfering actions at instruction boundaries
		maxPts := 0
		if c.Dev >= 2 {
			maxPts = 28 // two or more actions: placements among the first 28 instruction boundaries (beyond: no interference)
		}
		if c.Dev >= 3 {
			maxPts = 20
		}
		st := choice.Explore(maxPts, c.Dev, func(cc *choice.Ctx) {
			ds.VerifSeedGlobal(1)
			xrand.Seed(1)
			o := c06Eval(c, c06NewVM(c, seedBytes), c.Src, cc)
			if !o.same(base) {
				viol("C06:interference", fmt.Sprintf("%q seed %d: interfering actions %v at instruction boundaries change the outcome\n  alone: %s\n  now  : %s", c.Src, c.Seed, cc.Answers(), base, o))
			}
		})
		res.Stats["executions"] += st.Runs
		res.Stats["executions_with_placements_cut_at_bound"] += st.Forced
		res.Sample = fmt.Sprintf("%q seed %d: %d placements of <=%d interfering actions, %d draws", c.Src, c.Seed, st.Runs, c.Dev, base.draws)
	case "shared":
		mk := func() (*ds.VMValue, *ds.VMValue) {
			return ds.NewComputedVal(c.Src), ds.NewFunctionValRaw(&ds.FunctionData{Expr: c.Src, Name: "sfn"})
		}
		use := "[sv, sfn(), sv]"
		// reference: fresh objects, evaluated by the seeded context only
		ref := c06NewVM(c, append([]byte{}, seedBytes...))
		rv, rf := mk()
		ref.Attrs.Store("sv", rv)
		ref.Attrs.Store("sfn", rf)
		want := c06Eval(c, ref, use, nil)
		// the same objects evaluated by another context first (twice: compiled lazily, then from the compiled form)
		sv, sfn := mk()
		var other *ds.Context
		if c.Dev == 0 {
			other = drv.NewVM(drv.AllOn())
		} else {
			other = c06NewVM(c, drv.SeedBytes(int64(c.Dev)))
		}
		other.Attrs.Store("sv", sv)
		other.Attrs.Store("sfn", sfn)
		_ = other.Run(use)
		_ = other.Run(use)
		y := c06NewVM(c, append([]byte{}, seedBytes...))
		y.Attrs.Store("sv", sv)
		y.Attrs.Store("sfn", sfn)
		got := c06Eval(c, y, use, nil)
		if !got.same(want) {
			viol("C06:shared-value-object-carries-a-generator", fmt.Sprintf("a computed value / function object with the body %q was evaluated by another context first; the seeded context then gets %s, with fresh objects it gets %s", c.Src, got, want))
		}
		if got.foreign != "" {
			viol("C06:foreign-source", fmt.Sprintf("%q seed %d: %s", c.Src, c.Seed, got.foreign))
		}
		res.Stats["executions"] += 4
		res.Sample = fmt.Sprintf("shared value object %q", c.Src)
	case "lifecycle":
		p1, p2, p3 := c.Stmts[0], c.Stmts[1], c.Stmts[2]
		seed2 := drv.SeedBytes(c.Seed + 100)
		// (a) a context that has already rolled, given new seed bytes and re-initialised, must roll like a fresh context with those bytes
		used := c06NewVM(c, append([]byte{}, seedBytes...))
		_ = used.Run(p1)
		used.Seed = append([]byte{}, seed2...)
		used.Init()
		cfgA := drv.AllOn()
		cfgA.OpLimit = 30000
		cfgA.Apply(used)
		fresh := c06NewVM(c, append([]byte{}, seed2...))
		oa, ob := c06Eval(c, used, p2, nil), c06Eval(c, fresh, p2, nil)
		if !oa.same(ob) {
			viol("C06:reseed-ignored", fmt.Sprintf("context seeded, used for %q, then given new seed bytes + Init(): %q gives %s; a fresh context with the same bytes gives %s", p1, p2, oa, ob))
		}
		// (b) captures are values: holding them while the context keeps running must not change them, nor the caller's seed bytes
		mine := append([]byte{}, seedBytes...)
		vmB := &ds.Context{Seed: mine}
		vmB.Init()
		cfgA.Apply(vmB)
		_ = vmB.Run(p1)
		cap1, _ := vmB.GetCurSeed()
		cap1Copy := append([]byte{}, cap1...)
		o2 := c06Eval(c, vmB, p2, nil)
		cap2, _ := vmB.GetCurSeed()
		_ = vmB.Run(p3)
		_, _ = vmB.GetCurSeed()
		if !bytes.Equal(cap1, cap1Copy) {
			viol("C06:captured-state-mutated", fmt.Sprintf("the state captured after %q changed while the context went on running %q / %q", p1, p2, p3))
		}
		if !bytes.Equal(mine, seedBytes) {
			viol("C06:caller-seed-mutated", fmt.Sprintf("the caller's seed bytes were overwritten after %q; %q", p1, p2))
		}
		_ = cap2
		res1 := c06NewVM(c, cap1) // resume from the FIRST capture (held, not copied)
		seen := map[any]*ds.VMValue{}
		// variables as they were after p1: rebuild by running p1 on a twin
		twin := c06NewVM(c, append([]byte{}, seedBytes...))
		_ = twin.Run(p1)
		twin.Attrs.Range(func(k string, v *ds.VMValue) bool { res1.Attrs.Store(k, deepClone(v, seen)); return true })
		o2b := c06Eval(c, res1, p2, nil)
		if !o2.same(o2b) {
			viol("C06:resume-from-held-capture", fmt.Sprintf("after %q capture; run %q (original: %s); later resume from that capture and run %q again: %s", p1, p2, o2, p2, o2b))
		}
		// (c) the default-sides setting is changed on a context that has already rolled dice without written sides: from then on
		// it rolls like a fresh context that resumes from the captured state under the new setting
		{
			vmD := c06NewVM(c, append([]byte{}, seedBytes...))
			vmD.Config.DefaultDiceSideExpr = "6"
			_ = vmD.Run("d + 2d")
			_ = vmD.Run(p1)
			capD, _ := vmD.GetCurSeed()
			vmD.Config.DefaultDiceSideExpr = "20"
			od := c06Eval(c, vmD, "d + 2d + 0*1", nil)
			fr := c06NewVM(c, append([]byte{}, capD...))
			fr.Config.DefaultDiceSideExpr = "20"
			of := c06Eval(c, fr, "d + 2d + 0*1", nil)
			if !od.same(of) {
				viol("C06:setting-change-on-used-context", fmt.Sprintf("context rolled 'd + 2d' with default sides 6, then %q; after the setting became 20, 'd + 2d' gives %s; a fresh context resumed from the same state gives %s", p1, od, of))
			}
		}
		res.Stats["executions"] += 8
		res.Sample = fmt.Sprintf("lifecycle %q", c.Stmts)
	case "resume":
		for split := 1; split < len(c.Stmts); split++ {
			p1 := strings.Join(c.Stmts[:split], "; ")
			p2 := strings.Join(c.Stmts[split:], "; ")
			a := c06NewVM(c, seedBytes)
			if err := a.Run(p1); err != nil {
				viol("MACHINERY:generator", p1+": "+err.Error())
				return res
			}
			captured, _ := a.GetCurSeed()
			b := c06NewVM(c, append([]byte{}, captured...))
			seen := map[any]*ds.VMValue{}
			a.Attrs.Range(func(k string, v *ds.VMValue) bool {
				b.Attrs.Store(k, deepClone(v, seen))
				return true
			})
			oa := c06Eval(c, a, p2, nil)
			ob := c06Eval(c, b, p2, nil)
			res.Stats["executions"] += 2
			if !oa.same(ob) {
				viol("C06:resume", fmt.Sprintf("run %q, capture the generator state, install it in a fresh context with the same variables, then run %q on both:\n  original: %s\n  resumed : %s", p1, p2, oa, ob))
			}
			if oa.foreign != "" {
				viol("C06:foreign-source", fmt.Sprintf("%q: %s", p2, oa.foreign))
			}
		}
		res.Sample = fmt.Sprintf("resume %q", c.Stmts)
	}
	return res
}

func init() {
	harn.Register(&harn.Check{
		ID:   "C06",
		Rule: "interference: for each program of a pool covering every randomness-reaching construct (all dice families, nested/implicit-sides dice, dice inside functions, computed values, DefaultDiceSideExpr, templates, loops, shuffle/rand/randSize, st) x seeds: baseline on a seeded context; the process-wide generators re-seeded 3 ways; and EVERY placement of <= 2 (thorough: 3 for short programs) interfering actions (unseeded VM rolling, another seeded VM rolling, re-seeding of both process-wide generators twice, reading seeds / drawing from the global x/exp/rand) at every instruction boundary of every sub-VM depth (choice DFS over VerifStep slots): value, detail text, st callbacks, draw count and final generator state must equal the baseline, and VerifRoll must report the context's own generator for every draw. lifecycle: a used context that is given new seed bytes and re-initialised must roll like a fresh one; a captured state held while the context keeps running must stay intact (and the caller's seed bytes too) and still resume identically. resume: for every statement list of <=3 dice-using statements and every split, the generator state captured after the prefix and installed in a fresh context with deep-copied variables must continue identically. Non-trivial = at least one die drawn.",
		Enumerate: c06Enumerate,
		Run:       c06Run,
		Budget:    map[string]time.Duration{"quick": 400 * time.Second, "thorough": 40 * time.Minute},
	})
}
