package checks

import (
	"encoding/json"
	"fmt"
	"strings"
	"time"

	ds "github.com/sealdice/dicescript"
	"golang.org/x/exp/rand"
	"verifmc/drv"
	"verifmc/gen"
	"verifmc/harn"
)

// C07 — budgets and capacity limits fail closed.

type c07Case struct {
	Src    string
	Cfg    drv.Cfg
	Expect string `json:",omitempty"` // canonical value of the FULL program when it is known ("" = unknown)
	MustErr bool  `json:",omitempty"` // the program exceeds a built-in capacity: it must be rejected
	// Lazy: the VM holds never-compiled values whose body is LazyBody: a computed value lzc and a function lzf() in its
	// variables (as restored from a snapshot / created by the host); Src is evaluated Reps times on the one VM
	LazyBody string `json:",omitempty"`
	Reps     int    `json:",omitempty"`
}

// K: work per counted operation that is still "proportional" (a native method may touch up to 512 elements,
// Fate rolls 4 dice per instruction, ...). An uncharged construct is unbounded and exceeds any constant.
const c07K = 600

func c07Enumerate(tier string, seed int64, emit func(string, any)) {
	thorough := tier == "thorough"
	mags := []string{"20", "512", "513", "1000", "8191", "8192", "8193", "20000", "30001", "1000000", "1000000000", "4611686018427387904"}
	if !thorough {
		mags = []string{"20", "513", "8192", "30001", "1000000", "4611686018427387904"}
	}
	budgets := []int64{200, 30000}
	modes := []int{0, 1, 2}
	tmpl := []string{
		"Md6", "MdM", "2d6kM", "Md6kM", "bM", "pM", "Ma10", "Ma2m6", "2a2mM", "2a10mM", "Mc10", "Mc2m6", "2c2mM", "5c2m2", "5a2m2", "Ma0",
		"i=0; while i < M { i = i + 1 }; i", "i=0; while 1 { i = i + 1 }", "while 1 {}", "func g(n){ n <= 0 ? 0 : 1 + g(n-1) }; g(M)", "func g(n){ g(n+1) }; g(0)", "func g(n){ h(n) }; func h(n){ g(n) }; g(1)",
		"&a = a + 1; a", "&a = b; &b = a; a",
		// work done inside sub-evaluations, reached through every way of reading a name
		"&a = Md6; a + a", "&a = Md6; load('a') + load('a')", "&a = Md6; this.a + this.a", "&a = Md6; `{a}{a}`", "&a = Md6; [a, load('a'), this.a]", "&a = Md6; &b = a + a; b + load('b')", "func g(){ Md6 }; g() + g()", "func g(){ Md6 }; &a = g(); load('a')",
		"&a = Md6; x = {'k': &a}; x.k",
		// ... whose value is null / is not used / is an error swallowed by ??
		"&nv = {'a': Md1}.b; func f(){ nv; nv; nv; nv }; f()", "&nv = [Md1][1] ?? null; func f(){ nv; nv; nv }; f(); 1", "&nv = {'a': Md1}.b; &w = nv ?? 1; w + w + w",
		// strings grown through a template made of ONE part
		"x='a'; i=0; while i<M { x = `{[x,x,x,x]}`; i=i+1 }; 1", "x='ab'; i=0; while i<M { x = `{x + x}`; i=i+1 }; x[0]", "x='a'; i=0; while i<M { x = `{% [x,x] %}`; i=i+1 }; 1", "&a = Md6; &a.compute() + 0", "&a = Ma10; load('a')", "&a = Mc10; this.a", "&a = [1..500].sum() * M; load('a') + load('a')",
		"[1..M]", "[M..1]", "x=[1..500]; x = x + x", "x=[1,2]; i=0; while i < M { x = x + x; i = i + 1 }; x.len()", "[1,2]*M", "x=[1]; i=0; while i<M { x = [x, x]; i=i+1 }; 1",
		"x=[1]; i=0; while i<M { x = [x, x]; i=i+1 }; x", "x=[1]; i=0; while i<60 { x = [x, x]; i=i+1 }; toStr(x).len", "x=[1]; i=0; while i<60 { x = [x, x]; i=i+1 }; x == x",
		"x='a'; i=0; while i<M { x = x + x; i=i+1 }; 1", "x='a'; while 1 { x = x + x }", "x='a'; while 1 { x = `{x}{x}` }", "x='ab'; i=0; while i<M { x = x + x; i=i+1 }; x[1]",
		"[1..500].kh(M)", "[1..500].randSize(M)", "x=[1..500]; i=0; while i<M { x.shuffle(); i=i+1 }; 1", "x=[1..500]; i=0; while i<M { x.sum(); i=i+1 }; 1", "i=0; while i<M { f; i=i+1 }; 1", "i=0; while i<M { b3; i=i+1 }; 1",
		"i=0; while i<M { toStr([1..500]); i=i+1 }; 1", "x = {}; i=0; while i<M { x[i] = i; i=i+1 }; x.len()", "d(d(d(dM)))", "Md6d6", "(Md1)d6", "2dM优势",
	}
	// work hidden behind values that are compiled lazily, again and again: a default-sides expression (compiled per sub-VM),
	// host values built anew by the loader on every load, RunExpr-like bodies
	for _, m := range []string{"20", "300", "5000"} {
		for _, b := range budgets {
			for _, t := range []struct{ src, def string; host bool }{
				{"func g(){ d + d }; i=0; while i < M { g(); i = i + 1 }; i", "6", false},
				{"i=0; while i < M { 3d; i = i + 1 }; i", "2d6", false},
				{"func g(){ 2d }; func h(){ g() + g() }; i=0; while i < M { h(); i = i + 1 }; i", "d4+2", false},
				{"i=0; while i < M { gfresh; i = i + 1 }; i", "", true},
				{"i=0; while i < M { gfreshf(); i = i + 1 }; i", "", true},
				{"func g(){ gfresh + gfreshf() }; i=0; while i < M { g(); i = i + 1 }; i", "", true},
				{"i=0; while i < M { gc + gf(1); i = i + 1 }; i", "", true},
			} {
				c := drv.AllOn()
				c.OpLimit, c.ParseLimit, c.DefExpr, c.Host = b, 1000000, t.def, t.host
				emit("adversarial/lazily compiled", c07Case{Src: strings.ReplaceAll(t.src, "M", m), Cfg: c})
			}
		}
	}
	for _, t := range tmpl {
		ms := mags
		if !strings.Contains(t, "M") {
			ms = mags[:1]
		}
		for _, m := range ms {
			src := strings.ReplaceAll(t, "M", m)
			for _, b := range budgets {
				for _, mode := range modes {
					c := drv.AllOn()
					c.OpLimit, c.ParseLimit = b, 1000000
					c.Min, c.Max = mode == 1, mode == 2
					if mode != 0 && !thorough && b == 200 {
						continue
					}
					emit("adversarial", c07Case{Src: src, Cfg: c})
				}
			}
		}
	}
	// budget sweep: every budget 1..64 (the exact value at which the counter meets the budget matters) x {random, max}
	for _, src := range []string{"5a2m2", "5c2m2", "20000a2", "20a2m3k2", "3c2m3", "2a10 + 2a10", "i=0; while 1 { i = i + 1 }", "func g(n){ g(n+1) }; g(0)", "&a = a + 1; a", "100d6", "x='a'; while 1 { x = x + x }", "[1..100].kh(50) + 3a2", "b3 + 5a2", "f + f + 4c2"} {
		for b := int64(1); b <= 64; b++ {
			for _, mode := range []int{0, 2} {
				c := drv.AllOn()
				c.OpLimit, c.ParseLimit = b, 100000
				c.Max = mode == 2
				emit("budget sweep 1..64", c07Case{Src: src, Cfg: c})
			}
		}
	}
	// parse budget: long / deep sources under small and large parse budgets
	for _, n := range []int{10, 100, 1000, 5000} {
		for _, pl := range []uint64{10000, 1000000} {
			for _, src := range []string{
				"1" + strings.Repeat("+1", n), strings.Repeat("(", n) + "1" + strings.Repeat(")", n), strings.Repeat("[", n) + "1" + strings.Repeat("]", n),
				strings.Repeat("-", n) + "1", strings.Repeat("x.a = ", n) + "1", "1" + strings.Repeat(" ? 1", n), strings.Repeat("{'a':", n) + "1" + strings.Repeat("}", n),
				strings.Repeat("`{", n) + "1" + strings.Repeat("}`", n), strings.Repeat("if 1 {", n) + strings.Repeat("}", n), "^st" + strings.Repeat("a1", n),
			} {
				if n >= 1000 && !thorough && pl == 1000000 && strings.HasPrefix(src, "{") {
					continue
				}
				c := drv.AllOn()
				c.OpLimit, c.ParseLimit = 30000, pl
				emit("parse-budget", c07Case{Src: src, Cfg: c})
			}
		}
	}
	// capacities: just below / at / above, with the value of the FULL program known
	cfg := drv.AllOn()
	cfg.OpLimit, cfg.ParseLimit = 0, 0
	big := drv.AllOn()
	big.OpLimit, big.ParseLimit = 10000000, 0
	for _, n := range []int{100, 2000, 4094, 4095, 4096, 4097, 5000, 8191, 8192, 8193, 10000} {
		if n > 5000 && !thorough {
			continue
		}
		emit("capacity/code size", c07Case{Src: "1" + strings.Repeat("+1", n), Cfg: cfg, Expect: fmt.Sprint(n + 1)})
		emit("capacity/code size", c07Case{Src: "0" + strings.Repeat(";1", n-1) + ";7", Cfg: cfg, Expect: "7"})
		emit("capacity/code size", c07Case{Src: "func g(){ 1" + strings.Repeat("+1", n) + " }; g()", Cfg: cfg, Expect: fmt.Sprint(n + 1)})
		emit("capacity/code size", c07Case{Src: "&a = 1" + strings.Repeat("+1", n) + "; a", Cfg: cfg, Expect: fmt.Sprint(n + 1)})
		emit("capacity/code size", c07Case{Src: "x = 0; " + strings.Repeat("x = x + 1; ", n) + "x", Cfg: cfg, Expect: fmt.Sprint(n)})
	}
	for _, n := range []int{1, 10, 19, 20, 21, 22, 30} {
		emit("capacity/block nesting", c07Case{Src: strings.Repeat("if 1 {", n) + "x = 5" + strings.Repeat("}", n) + "; x", Cfg: cfg, Expect: "5"})
		emit("capacity/template nesting", c07Case{Src: strings.Repeat("`<{", n) + "7" + strings.Repeat("}>`", n), Cfg: cfg, Expect: fmt.Sprintf("%q", strings.Repeat("<", n)+"7"+strings.Repeat(">", n))})
		emit("capacity/block nesting", c07Case{Src: "i = 0; " + strings.Repeat("while i < 1 {", n) + "i = i + 1" + strings.Repeat("}", n) + "; i", Cfg: cfg, Expect: "1"})
	}
	for _, n := range []int{10, 500, 990, 998, 999, 1000, 1001, 1100, 3000} {
		emit("capacity/operand stack", c07Case{Src: "[" + strings.TrimSuffix(strings.Repeat("1,", n), ",") + "].len()", Cfg: cfg, Expect: func() string {
			if n <= 512 {
				return fmt.Sprint(n)
			}
			return ""
		}()})
		emit("capacity/operand stack", c07Case{Src: "x = 0; i = 0; while i < " + fmt.Sprint(n) + " { i = i + 1; x = x + 1 }; x", Cfg: big, Expect: fmt.Sprint(n)})
		emit("capacity/operand stack", c07Case{Src: strings.Repeat("(1+", n) + "1" + strings.Repeat(")", n), Cfg: cfg, Expect: fmt.Sprint(n + 1)})
	}
	// code size of bodies that are compiled lazily (never-compiled values held by the VM; default-sides expression): used
	// three times on one VM — every use errors or gives the value of the full body
	for _, n := range []int{100, 4090, 4096, 4100, 8190, 8200, 9000} {
		body := "1" + strings.Repeat("+1", n)
		emit("capacity/code size of lazily compiled bodies", c07Case{Src: "lzc", Cfg: cfg, Expect: fmt.Sprint(n + 1), LazyBody: body, Reps: 3})
		emit("capacity/code size of lazily compiled bodies", c07Case{Src: "lzf()", Cfg: cfg, Expect: fmt.Sprint(n + 1), LazyBody: body, Reps: 3})
		emit("capacity/code size of lazily compiled bodies", c07Case{Src: "lzf() + lzc", Cfg: cfg, Expect: fmt.Sprint(2 * (n + 1)), LazyBody: body, Reps: 3})
		dc := cfg
		dc.DefExpr, dc.Max = body, true
		emit("capacity/code size of lazily compiled bodies", c07Case{Src: "d", Cfg: dc, Expect: fmt.Sprint(n + 1), Reps: 3})
		emit("capacity/code size of lazily compiled bodies", c07Case{Src: "func g(){ d }; g()", Cfg: dc, Expect: fmt.Sprint(n + 1), Reps: 3})
	}
	for _, n := range []int{1, 256, 511, 512, 513, 1024} {
		emit("capacity/container length", c07Case{Src: fmt.Sprintf("[1..%d].len()", n), Cfg: cfg, Expect: fmt.Sprint(n)})
		emit("capacity/container length", c07Case{Src: fmt.Sprintf("([0]*%d).len()", n), Cfg: cfg, Expect: fmt.Sprint(n)})
		emit("capacity/container length", c07Case{Src: fmt.Sprintf("x=[1..%d]; (x + [0]).len()", n), Cfg: cfg, Expect: fmt.Sprint(n + 1)})
		emit("capacity/container length", c07Case{Src: fmt.Sprintf("x=[0]; i=1; while i<%d { x.push(i); i=i+1 }; x.len()", n), Cfg: big, Expect: fmt.Sprint(n)})
	}
	// the container-length capacity (512 elements created by one operation) holds for every operation that creates an
	// array in one go, in both directions and operand orders
	for _, n := range []int{512, 513, 1024, 20000, 1000000} {
		for _, t := range []string{"[1..%d].len()", "[%d..1].len()", "[0..%d].len()", "[%d..0].len()", "[-1..%d].len()", "[%d..-1].len()", "([0]*%d).len()", "(%d*[0]).len()", "([0,1]*%d).len()", "x=[1..512]; y=[1..%d]; (x+y).len()", "func g(){ [%d..1] }; g().len()", "&a = [%d..1]; a.len()"} {
			m := n
			if strings.Contains(t, "[0..") || strings.Contains(t, "..0]") {
				m = n - 1 // n elements
			} else if strings.Contains(t, "[-1..") || strings.Contains(t, "..-1]") {
				m = n - 2
			} else if strings.Contains(t, "[0,1]*") {
				m = (n + 1) / 2
			} else if strings.Contains(t, "x+y") {
				if n > 512 {
					continue
				}
				m = 1
			}
			c := c07Case{Src: fmt.Sprintf(t, m), Cfg: cfg}
			if n > 512 {
				c.MustErr = true
			}
			emit("capacity/container length", c)
		}
	}
	// every control-flow program under a small budget: the accounting oracle applies to all of them
	gen.ControlFlow(false, func(s string) {
		c := drv.AllOn()
		c.OpLimit, c.ParseLimit = 200, 100000
		emit("control-flow under budget 200", c07Case{Src: s, Cfg: c})
	})
}

func c07Run(raw json.RawMessage) harn.Result {
	var c c07Case
	if err := json.Unmarshal(raw, &c); err != nil {
		panic(err)
	}
	res := harn.Result{Stats: map[string]int64{}}
	viol := func(sig, what string) {
		if len(res.Violations) < 2 {
			res.Violations = append(res.Violations, harn.Violation{Signature: sig, What: fmt.Sprintf("cfg[%s] program %q: %s", c.Cfg, trunc(c.Src, 160), what)})
		}
	}
	var steps, rolls, diceRolls int64
	inInvoke := false
	ds.VerifStepHook = func(ctx *ds.Context, pc, top, bd, fd, dd, nd int) {
		steps++
		n := ds.VerifOpName(ctx.VerifOpAt(pc))
		inInvoke = n == "invoke" || n == "invoke.self"
	}
	ds.VerifRollHook = func(s *rand.PCGSource, sides ds.IntType) (ds.IntType, bool) {
		rolls++
		if !inInvoke {
			diceRolls++ // drawn by a dice instruction (the draws of the native shuffle / rand methods are bounded per call instead)
		}
		return 0, false
	}
	defer func() { ds.VerifStepHook, ds.VerifRollHook = nil, nil }()
	vm := drv.NewVM(c.Cfg)
	if c.LazyBody != "" {
		vm.Attrs.Store("lzc", ds.NewComputedVal(c.LazyBody))
		vm.Attrs.Store("lzf", ds.NewFunctionValRaw(&ds.FunctionData{Expr: c.LazyBody, Name: "lzf"}))
	}
	for rep := 1; rep < c.Reps; rep++ {
		// earlier uses on the same VM: each errors or gives the full value
		var e1 error
		if site, p := harn.Guard(func() { e1 = vm.Run(c.Src) }); p {
			viol(site, "panic")
			return res
		}
		if e1 == nil && c.Expect != "" {
			if got := drv.Canon(vm.Ret); got != c.Expect {
				viol("C07:truncated-result", fmt.Sprintf("use #%d on the VM returned %s — the full program evaluates to %s", rep, trunc(got, 80), c.Expect))
				return res
			}
		}
	}
	steps, rolls, diceRolls = 0, 0, 0
	var perr, rerr error
	site, p := harn.Guard(func() {
		perr = vm.Parse(c.Src)
		if perr == nil {
			rerr = vm.RunAfterParsed()
		}
	})
	if p {
		viol(site, "panic")
		return res
	}
	w := steps + rolls
	res.Stats["work_units"] = w
	budget := c.Cfg.OpLimit
	nop := int64(vm.NumOpCount)
	switch {
	case perr != nil:
		res.Outcome = "parse-error"
	case rerr != nil:
		res.Outcome = "run-error"
		res.Nontrivial = true
	default:
		res.Outcome = "value"
		res.Nontrivial = true
	}
	if budget > 0 {
		if w > c07K*budget+1000 {
			viol("C07:work-not-bounded-by-budget", fmt.Sprintf("%d instructions + %d dice under a budget of %d", steps, rolls, budget))
		}
		if perr == nil && rerr == nil && nop > budget {
			viol("C07:over-budget-without-error", fmt.Sprintf("operation count %d exceeds the budget %d but a value was returned", nop, budget))
		}
	}
	if perr == nil && rerr == nil && w > c07K*nop+1000 {
		viol("C07:work-not-accounted", fmt.Sprintf("%d instructions + %d dice but the operation counter says %d", steps, rolls, nop))
	}
	// the counter accounts for EVERY instruction executed and EVERY die rolled (sub-evaluations included): exact, no constant
	if perr == nil && rerr == nil && (steps > nop || diceRolls > nop) {
		viol("C07:counter-misses-work", fmt.Sprintf("%d instructions executed and %d dice rolled (sub-evaluations included), but the operation counter says %d", steps, diceRolls, nop))
	}
	if c.MustErr && perr == nil && rerr == nil {
		viol("C07:capacity-not-enforced", fmt.Sprintf("returned %s — the program creates a container beyond the built-in capacity in one operation and must be rejected", trunc(drv.Canon(vm.Ret), 80)))
	}
	if c.Expect != "" && perr == nil && rerr == nil {
		got := drv.Canon(vm.Ret)
		if got != c.Expect || vm.RestInput != "" {
			viol("C07:truncated-result", fmt.Sprintf("returned %s (rest %q) — the full program evaluates to %s; a program beyond a capacity must be rejected, not executed in part", trunc(got, 80), trunc(vm.RestInput, 40), c.Expect))
		}
	}
	return res
}

func init() {
	harn.Register(&harn.Check{
		ID:   "C07",
		Rule: "adversarial family: every work-producing construct (XdY, keep/drop, CoC, WoD / Double Cross incl. exploding pools with add-line 2, while, direct / mutual / unbounded recursion, self-referential computed values, ranges, array and string doubling, nested-array doubling and its printing / comparison, kh / randSize / shuffle / sum in loops, Fate / CoC in loops, dict growth, nested implicit dice) x magnitudes {20 .. 2^62} x budgets {200, 30000} x {random, min, max} mode; long and deep sources x parse budgets {10^4, 10^6}; capacities (8192 instructions in main code, function body and computed body; 20 blocks; 20 template holes; 1000 stack slots; 512 elements) just below / at / above with the value of the FULL program known; every control-flow program under budget 200; 14 unbounded / exploding programs under EVERY budget 1..64 in random and max mode. Deterministic work meter W = VM instructions dispatched (VerifStep) + dice drawn (VerifRoll). Oracles: W <= 600*budget+1000; W <= 600*NumOpCount+1000 whenever a value is returned; a returned value implies NumOpCount <= budget; exceeding the parse budget is an error, never a panic; beyond a capacity the program errors or returns the value of the full program, never of a prefix; a worker OOM / 60 s watchdog on a budgeted case is a violation. Non-trivial = program parses; distinct by (program, configuration).",
		Assume: []string{"factor 600 = the largest work a single counted operation may hide by design (a native method over a 512-element container); an uncharged construct is unbounded and exceeds any constant", "work inside native loops that draw no dice is visible only to the coarse OOM / watchdog oracle"},
		Enumerate:   c07Enumerate,
		Run:         c07Run,
		CaseTimeout: 60 * time.Second,
		Budget:      map[string]time.Duration{"quick": 400 * time.Second, "thorough": 40 * time.Minute},
	})
}
