package checks

import (
	"bytes"
	"encoding/json"
	"fmt"
	"math"
	"strings"
	"time"

	ds "github.com/sealdice/dicescript"
	"verifmc/drv"
	"verifmc/harn"
)

// C09 — JSON snapshot and restore of variables is transparent.

type c09Case struct {
	Kind  string   // value | snapshot
	Src   string   `json:",omitempty"`
	Stmts []string `json:",omitempty"`
}

var c09ValuePrograms = []string{
	"0", "-7", "4611686018427387904", "9007199254740993", "-9007199254740993", "9223372036854775807", "[9007199254740993, 1]", "{'k': 9007199254740995}", "1.5", "-0.25", "0.0", "1000000000000000000000.5", "''", "'a\"b\\'c'", "'中文\\n\\t'", "'\x1e'", "null", "true",
	"[]", "[1]", "[1, 'a', null, 1.5]", "[[1], [[2]], []]", "{}", "{'a': 1}", "{'a': {'b': {'c': [1]}}}", "{'k': [1, {'j': null}]}", "{1: 2, 1.5: 3}",
	"func f(){}", "func f(a){ a + 1 }", "func f(a, b){ if a { return b }; a }", "func f(){ 2d6 + b }", "func f(a){a}; [f, f]",
	"&c = 1 + 1; &c", "&c = 2d6k1; &c", "&c = x; &c.a = 1; &c.b = [1]; &c", "&c = ''; &c", "[&c]", "&c = 1; {'k': &c}",
	"ceil", "[ceil, toStr]", "{'f': dir}", "[1,2].sum", "{'m': [1].push}", "x = [1,2]; x.kh",
	"x = [1]; x.push(x); x", "x = {}; x.k = x; x", "x = [1]; y = {'a': x}; x.push(y); x", "x = [1]; [x, x]", "x = {'a': 1}; {'p': x, 'q': x}",
	"{'" + strings.Repeat("k", 100) + "': 1, 'a': 2, 'b': 3, 'c': [4], 'd': {'e': 5, 'f': 6}}", "x = {}; x['" + strings.Repeat("长", 60) + "'] = 1; x.a = 2; x.b = {'p': 1, 'q': 2, 'r': 3}; x", "{'a': 1, 'bb': 2, 'ccc': 3, 'dddd': 4, '" + strings.Repeat("e", 300) + "': 5, 'f': 6, 'g': 7}",
	"&c = 1 + 1; &c.x = &c; &c", "&c = 1; &c.a = [&c]; &c", "x = [1]; &c = 1; &c.a = x; x.push(&c); x", "&c = 1; &c.a = 1; [&c, &c]", "&c = 1; &c.a = [1]; {'p': &c, 'q': &c.a}", "x = {'a': 1}; y = {'__proto__': x}; [x, y, {'__proto__': x}]",
	"x = 9999999999.0; x = x*x; x = x*x; x = x*x; x = x*x; x = x*x; x", "x = 9999999999.0; x = x*x; x = x*x; x = x*x; x = x*x; x = x*x; [x - x]", "x = 9999999999.0; x = x*x; x = x*x; x = x*x; x = x*x; x = x*x; {'a': -x}",
	// dict keys over the text alphabet (control characters, JSON / HTML specials, line separators): a key is text like any other
	"{'\\t': 1}", "{'a\\tb': [1], 'c': 2}", "{'\\n': {'\\r': 1}}", "{'\x01': 1}", "x = {}; x['\x1f'] = 1; x['\x7f'] = [x['\x1f']]; x", "{'<>&': 1, '\u2028': 2, '\u2029': 3}", "{'\\\\': 1, '\\'': 2, '\"': 3}", "{'\x02k': {'\x03': [1, {'\x04': null}]}}", "&c = 1; &c.a = {'\\t': 1}; &c",
	"[1..5]", "[[]] * 3", "x = [1,2,3]; x[1:]", "'x' + 'y'", "`t{1}{'s'}`", "2d1", "[2d1, f]",
}

var c09Stmts = []string{
	"x = 5", "n9 = 9007199254740993", "n9 % 10", "n9 == 9007199254740993", "y = [1,2,3]", "z = {'a': 1, 'b': [2]}", "func f(a){ a + x }", "func g(){ 2d6 }", "&c = x + 2d6", "&c.k = 3", "y.push(4)", "z.a = z.a + 1",
	"w = y", "w.push(9)", "x = x + f(2)", "x = x + g()", "c + c", "s = 'q\"' + `{x}`", "x = 1.5", "n = null", "y[0] = 'k'", "y = y + [x]", "t = z.b; t.push(1)",
	"func h(a, b){ if a { return b }; a }", "x = h(1, 2) + h(0, 3)", "&d = c + 1", "d", "&c.k", "e = [f, g]", "e[0](1)", "p = ceil", "p(1.5)", "[x, y, z, c]", "z.b", "q = {'__proto__': z}; q.a", "&c = this.k + 1; c",
}

func c09Enumerate(tier string, seed int64, emit func(string, any)) {
	thorough := tier == "thorough"
	for _, p := range c09ValuePrograms {
		emit("value round trip", c09Case{Kind: "value", Src: p})
	}
	n := len(c09Stmts)
	for i := 0; i < n; i++ {
		for j := 0; j < n; j++ {
			emit("snapshot points/2 statements", c09Case{Kind: "snapshot", Stmts: []string{c09Stmts[i], c09Stmts[j]}})
			for k := 0; k < n; k++ {
				if !thorough && (i*7+j*3+k)%4 != 0 {
					continue
				}
				emit("snapshot points/3 statements", c09Case{Kind: "snapshot", Stmts: []string{c09Stmts[i], c09Stmts[j], c09Stmts[k]}})
			}
		}
	}
	if thorough {
		core := []int{0, 1, 2, 3, 5, 6, 7, 9, 10, 11, 13, 19, 22, 23, 25, 26}
		for _, a := range core {
			for _, b := range core {
				for _, c := range core {
					for _, d := range core {
						emit("snapshot points/4 statements", c09Case{Kind: "snapshot", Stmts: []string{c09Stmts[a], c09Stmts[b], c09Stmts[c], c09Stmts[d]}})
					}
				}
			}
		}
	}
}

// stateFeatures walks variables: unrepresentable values and containers reachable by two paths.
type c09Features struct {
	cycle, nonFinite, boundMethod, nativeObject, internal bool
	shared                                                 bool
}

func (f c09Features) unrepresentable() bool {
	return f.cycle || f.nonFinite || f.boundMethod || f.nativeObject || f.internal
}

func c09Walk(v *ds.VMValue, onPath map[any]bool, seen map[any]int, f *c09Features) {
	if v == nil {
		return
	}
	switch v.TypeId {
	case ds.VMTypeFloat:
		x, _ := v.ReadFloat()
		if math.IsInf(x, 0) || math.IsNaN(x) {
			f.nonFinite = true
		}
	case ds.VMTypeArray:
		ad, _ := v.ReadArray()
		if onPath[ad] {
			f.cycle = true
			return
		}
		seen[ad]++
		if seen[ad] > 1 {
			f.shared = true
		}
		onPath[ad] = true
		for _, e := range ad.List {
			c09Walk(e, onPath, seen, f)
		}
		delete(onPath, ad)
	case ds.VMTypeDict:
		dd, _ := v.ReadDictData()
		if onPath[dd] {
			f.cycle = true
			return
		}
		seen[dd]++
		if seen[dd] > 1 {
			f.shared = true
		}
		onPath[dd] = true
		dd.Dict.Range(func(k string, e *ds.VMValue) bool {
			c09Walk(e, onPath, seen, f)
			return true
		})
		delete(onPath, dd)
	case ds.VMTypeComputedValue:
		cd, _ := v.ReadComputed()
		if cd.Attrs != nil {
			if onPath[cd.Attrs] {
				f.cycle = true
				return
			}
			onPath[cd.Attrs] = true
			cd.Attrs.Range(func(k string, e *ds.VMValue) bool {
				c09Walk(e, onPath, seen, f)
				return true
			})
			delete(onPath, cd.Attrs)
		}
	case ds.VMTypeNativeFunction:
		fd, _ := v.ReadNativeFunctionData()
		if fd != nil && fd.Self != nil {
			f.boundMethod = true
		}
	case ds.VMTypeNativeObject:
		f.nativeObject = true
	case ds.VMTypeInt, ds.VMTypeString, ds.VMTypeNull, ds.VMTypeFunction:
	default:
		f.internal = true
	}
}

func c09Run(raw json.RawMessage) harn.Result {
	var c c09Case
	if err := json.Unmarshal(raw, &c); err != nil {
		panic(err)
	}
	res := harn.Result{Stats: map[string]int64{}, Nontrivial: true}
	ds.VerifRollHook, ds.VerifStepHook = nil, nil
	viol := func(sig, what string) {
		if len(res.Violations) < 2 {
			res.Violations = append(res.Violations, harn.Violation{Signature: sig, What: what})
		}
	}
	cfg := drv.AllOn()
	cfg.Seed = 11
	cfg.OpLimit = 30000
	switch c.Kind {
	case "value":
		vm := drv.NewVM(cfg)
		if err := vm.Run(c.Src); err != nil {
			viol("MACHINERY:generator", c.Src+": "+err.Error())
			return res
		}
		v := vm.Ret
		var f c09Features
		c09Walk(v, map[any]bool{}, map[any]int{}, &f)
		var b []byte
		var err error
		if site, p := harn.Guard(func() { b, err = v.ToJSON() }); p {
			viol(site, fmt.Sprintf("%q: panic in ToJSON", c.Src))
			return res
		}
		if f.unrepresentable() {
			res.Outcome = "unrepresentable"
			if err == nil {
				// must at least not decode to something else
				w, derr := ds.VMValueFromJSON(b)
				if derr == nil && drv.Canon(w) != drv.Canon(v) {
					viol("C09:unrepresentable-silently-different", fmt.Sprintf("%q: value %s cannot be represented but serialises without error to %s, which decodes to %s", c.Src, drv.Canon(v), b, drv.Canon(w)))
				} else if derr == nil {
					viol("C09:unrepresentable-accepted", fmt.Sprintf("%q: value %s (cycle=%v nonfinite=%v bound=%v) serialises without error", c.Src, drv.Canon(v), f.cycle, f.nonFinite, f.boundMethod))
				}
			}
			return res
		}
		res.Outcome = "representable"
		if err != nil {
			viol("C09:representable-rejected", fmt.Sprintf("%q: value %s does not serialise: %v", c.Src, drv.Canon(v), err))
			return res
		}
		var w *ds.VMValue
		var derr error
		if site, p := harn.Guard(func() { w, derr = ds.VMValueFromJSON(b) }); p {
			viol(site, fmt.Sprintf("%q: panic decoding own output %s", c.Src, b))
			return res
		}
		if derr != nil {
			viol("C09:own-output-rejected", fmt.Sprintf("%q: own output %s does not decode: %v", c.Src, b, derr))
			return res
		}
		if drv.Canon(w) != drv.Canon(v) {
			viol("C09:round-trip-differs", fmt.Sprintf("%q: %s -> %s -> %s", c.Src, drv.Canon(v), b, drv.Canon(w)))
		}
		// second generation is a fixed point
		if b2, err2 := w.ToJSON(); err2 != nil || !sameJSON(b, b2) {
			viol("C09:second-generation-differs", fmt.Sprintf("%q: %s then %s (err %v)", c.Src, b, b2, err2))
		}
	case "snapshot":
		res.Outcome = "snapshot"
		for split := 1; split < len(c.Stmts); split++ {
			a := drv.NewVM(cfg)
			ok := true
			for _, s := range c.Stmts[:split] {
				_ = a.Run(s) // a failing statement is part of the history
				// the host snapshots after every command: an earlier snapshot of the same VM must not show through a later one
				_, _ = harn.Guard(func() { _, _ = a.Attrs.ToJSON() })
			}
			var f c09Features
			seen := map[any]int{}
			a.Attrs.Range(func(k string, v *ds.VMValue) bool {
				c09Walk(v, map[any]bool{}, seen, &f)
				return true
			})
			var snap []byte
			var err error
			if site, p := harn.Guard(func() { snap, err = a.Attrs.ToJSON() }); p {
				viol(site, fmt.Sprintf("after %q: panic in Attrs.ToJSON", c.Stmts[:split]))
				return res
			}
			if err != nil {
				if !f.unrepresentable() {
					viol("C09:snapshot-rejected", fmt.Sprintf("after %q: variables %s do not serialise: %v", c.Stmts[:split], drv.CanonAttrs(a.Attrs), err))
				}
				continue
			}
			seedA, _ := a.GetCurSeed()
			b := &ds.Context{Seed: append([]byte{}, seedA...)}
			b.Init()
			cfg.Apply(b)
			var derr error
			if site, p := harn.Guard(func() { derr = b.Attrs.UnmarshalJSON(snap) }); p {
				viol(site, fmt.Sprintf("after %q: panic restoring %s", c.Stmts[:split], snap))
				return res
			}
			if derr != nil {
				viol("C09:own-snapshot-rejected", fmt.Sprintf("after %q: snapshot %s does not restore: %v", c.Stmts[:split], snap, derr))
				continue
			}
			if x, y := drv.CanonAttrs(a.Attrs), drv.CanonAttrs(b.Attrs); x != y {
				viol("C09:restored-variables-differ", fmt.Sprintf("after %q: original %s restored %s", c.Stmts[:split], x, y))
				continue
			}
			// the same snapshot restored into VMs that have been used (variables assigned / read / deleted / listed): a restore
			// replaces the variables, it does not merge into them
			for ui, warm := range [][]string{{"u1 = 1; u2 = [2]"}, {"u1 = 1", "u1"}, {"u1 = 1; u2 = 2", "u1 + u2", "u3 = 3"}} {
				u := drv.NewVM(cfg)
				for _, w := range warm {
					_ = u.Run(w)
				}
				if ui == 2 {
					u.Attrs.Delete("u1")
					u.Attrs.Range(func(string, *ds.VMValue) bool { return true })
				}
				var uerr error
				if site, p := harn.Guard(func() { uerr = u.Attrs.UnmarshalJSON(snap) }); p {
					viol(site, fmt.Sprintf("after %q: panic restoring into a used VM", c.Stmts[:split]))
					break
				}
				if uerr == nil {
					if x, y := drv.CanonAttrs(a.Attrs), drv.CanonAttrs(u.Attrs); x != y {
						viol("C09:restore-into-used-vm-differs", fmt.Sprintf("after %q: snapshot %s restored into a VM that had run %q gives %s", c.Stmts[:split], x, warm, y))
						break
					}
				}
			}
			for _, s := range c.Stmts[split:] {
				oa := drv.Eval(a, s, false)
				ob := drv.Eval(b, s, false)
				res.Stats["executions"] += 2
				if oa.Panic != "" || ob.Panic != "" {
					viol(oa.Panic+ob.Panic, fmt.Sprintf("snapshot after %q then %q: panic", c.Stmts[:split], s))
					ok = false
					break
				}
				sa, _ := a.GetCurSeed()
				sb, _ := b.GetCurSeed()
				// (a body compiled lazily after the restore costs an instruction or two more than its precompiled original: tolerated)
				if d := oa.NumOp - ob.NumOp; (d > 20 || d < -20) && (oa.Err == "") && (ob.Err == "") {
					viol("C09:restored-vm-counts-differently", fmt.Sprintf("snapshot after %q, then %q: the original VM counts %d operations, the restored one %d (the same work must cost the same budget)", c.Stmts[:split], s, oa.NumOp, ob.NumOp))
					break
				}
				same := (oa.Err == "") == (ob.Err == "") && oa.Ret == ob.Ret && (oa.Detail == ob.Detail || sameModuloDictOrder(oa.Detail, ob.Detail)) && bytes.Equal(sa, sb) && drv.CanonAttrs(a.Attrs) == drv.CanonAttrs(b.Attrs)
				if !same {
					sig := "C09:restored-vm-differs"
					if f.shared {
						sig = "C09:aliasing-between-variables-lost"
					}
					viol(sig, fmt.Sprintf("snapshot after %q, then %q:\n  original: err=%q value=%s detail=%q vars=%s\n  restored: err=%q value=%s detail=%q vars=%s", c.Stmts[:split], s, oa.Err, oa.Ret, oa.Detail, drv.CanonAttrs(a.Attrs), ob.Err, ob.Ret, ob.Detail, drv.CanonAttrs(b.Attrs)))
					ok = false
					break
				}
			}
			_ = ok
		}
	}
	return res
}

func sameJSON(a, b []byte) bool {
	var x, y any
	if json.Unmarshal(a, &x) != nil || json.Unmarshal(b, &y) != nil {
		return false
	}
	bx, _ := json.Marshal(x)
	by, _ := json.Marshal(y)
	return bytes.Equal(bx, by) || strings.EqualFold(string(bx), string(by))
}

func init() {
	harn.Register(&harn.Check{
		ID:   "C09",
		Rule: "value round trip: each program of a value grammar (ints incl. 2^62, finite floats, strings with quotes / CJK / control characters / 0x1E, null, nested arrays and dicts, dict keys over the text alphabet (C0 controls, DEL, <>&, U+2028/9, quotes, backslash), functions with 0-2 parameters, computed values with and without attributes, native functions, values inside containers; and the unrepresentable ones: cycles through array, dict and array<->dict, +-Inf / NaN, bound native methods) is built, serialised and decoded: representable values must come back structurally equal and reach a fixed point, unrepresentable ones must give an error. snapshot points: for every statement list of 2 and (1/4 of) 3 statements (thorough: all 3, and 4 over a core set) from a 33-statement pool (variables of every kind, functions, computed values with attributes, container mutation, aliasing, dice) and every split point: run the prefix on a seeded VM, snapshot variables + generator state, restore into a fresh VM, run the remaining statements on both: error-ness, value, detail text, variables and final generator state must agree after each statement. Distinct by program / statement list.",
		Enumerate: c09Enumerate,
		Run:       c09Run,
		Budget:    map[string]time.Duration{"quick": 400 * time.Second, "thorough": 40 * time.Minute},
	})
}
