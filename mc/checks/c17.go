package checks

import (
	"encoding/json"
	"fmt"
	"strconv"
	"strings"
	"time"

	ds "github.com/sealdice/dicescript"
	"golang.org/x/exp/rand"
	"verifmc/drv"
	"verifmc/harn"
)

// C17 — extension points are transparent unless they act.

type c17Case struct {
	Kind string // transparent | acting
	Src  string
	Ext  int    `json:",omitempty"` // transparent: which extension set
	Tmpl string `json:",omitempty"` // acting: template with the operand hole
	Op   string `json:",omitempty"` // acting: operand text
	Loop int    `json:",omitempty"` // acting: expected evaluations of the operand
}

const (
	extRegexNever = iota
	extStreamNever
	extStreamNeverNoReset
	extRegexAbsent
	extIdentityHooks
	extIdentityRewriters
	extObservers // st callback that reads what it is told; global load function that knows no name; identity load-overwrite
	extAll
	extCount
)

func c17Install(vm *ds.Context, ext int, calls *int) {
	bad := func(ctx *ds.Context, groups []string, payload any) (*ds.VMValue, string, error) {
		*calls++
		return ds.NewIntVal(424242), "BAD", nil
	}
	add := func(k int) {
		switch k {
		case extRegexNever:
			_ = vm.RegCustomDice(`ZZZ(\d+)`, bad)
		case extStreamNever, extStreamNeverNoReset:
			n := 0
			_ = vm.RegCustomDiceParser(func(ctx *ds.Context, st *ds.CustomDiceStream) (*ds.CustomDiceParseResult, error) {
				n++
				for i := 0; i < n%4; i++ { // reads 0..3 runes ahead
					st.Read()
				}
				if k == extStreamNever {
					st.ResetAttempt()
				}
				return &ds.CustomDiceParseResult{Matched: false}, nil
			}, bad)
		case extRegexAbsent:
			_ = vm.RegCustomDice(`E\d+`, bad)
		case extIdentityHooks:
			vm.Config.HookValueLoadPre = func(ctx *ds.Context, name string) (string, *ds.VMValue) { return name, nil }
			vm.Config.HookValueLoadPost = func(ctx *ds.Context, name string, curVal *ds.VMValue, doCompute func(curVal *ds.VMValue) *ds.VMValue, detail *ds.BufferSpan) *ds.VMValue {
				return doCompute(curVal)
			}
			vm.Config.HookValueStore = func(ctx *ds.Context, name string, v *ds.VMValue) (*ds.VMValue, bool) { return nil, false }
		case extObservers:
			vm.Config.CallbackSt = func(_type string, name string, val *ds.VMValue, extra *ds.VMValue, op string, detail string) {
				_ = val.ToString()
				if extra != nil {
					_ = extra.ToString()
				}
			}
			vm.GlobalValueLoadFunc = func(name string) *ds.VMValue { return nil }
			vm.GlobalValueLoadOverwriteFunc = func(name string, curVal *ds.VMValue) *ds.VMValue { return curVal }
		case extIdentityRewriters:
			vm.Config.CustomDetailSpanRewriteFunc = func(ctx *ds.Context, defaultDetail string, span ds.BufferSpan, isRoot bool, data []byte, off int) string {
				return defaultDetail
			}
			vm.Config.CustomDetailRewriteFunc = func(ctx *ds.Context, curDetail string, span ds.BufferSpan, data []byte, off int) string {
				return curDetail
			}
		}
	}
	if ext == extAll {
		for k := 0; k < extAll; k++ {
			add(k)
		}
	} else {
		add(ext)
	}
}

var c17ActTemplates = []struct {
	t    string
	loop int
}{
	{"@", 1}, {"@ + 1", 1}, {"1 + @", 1}, {"2 * @ - 1", 1}, {"-@", 1}, {"(@)", 1}, {"(@ + 1) * 2", 1}, {"[@]", 1}, {"[1, @]", 1}, {"[@, @]", 2}, {"xf(@)", 1}, {"y = @", 1}, {"y = @; y", 1},
	{"`{@}`", 1}, {"`a{% @ %}b`", 1}, {"func g(){ @ }; g()", 1}, {"func g(){ @ }; g() + g()", 2}, {"i = 0; while i < 3 { i = i + 1; @ }", 3}, {"if 1 { @ }", 1}, {"if 0 { @ }", 0},
	{"1 ? @ : 2", 1}, {"0 ? @ : 2", 0}, {"@ ? 1 : 2", 1}, {"0 || @", 1}, {"1 || @", 0}, {"{'a': @}.a", 1}, {"xa[@ - @]", 2}, {"@ == @", 2}, {"&q = @; q + q", 2}, {"@ kh", 1}, {"[@, 1] kh", 1}, {"x + @ + x", 1}, {"@\n+ 1", 1}, {"1 +\n@", 1}, {"@ ", 1}, {"@;", 1}, {"@; 7", 1},
}

// operands: text, value
var c17Operands = []struct {
	text string
	val  int
}{{"E2", 2}, {"E12", 12}, {"C1T2", 3}}

func c17Enumerate(tier string, seed int64, emit func(string, any)) {
	progs := append([]string{}, c03Programs...)
	for _, p := range c03Programs[:40] {
		for _, t := range c03Tails[:30] {
			progs = append(progs, p+" "+t)
		}
	}
	for _, t := range c14Terms {
		progs = append(progs, t.Src+" + 1", "2 * "+t.Src)
	}
	progs = append(progs, "E", "Efoo", "ZZZ", "ZZZx + 1", "E + 1", "C", "CT", "C1", "C1T", "x.E", "[E]")
	// process texts beyond the elision threshold (400 bytes per group)
	progs = append(progs, "250d6", "250d6 + 250d6", "200d10 + 1", "120a9", "&w = 250d6; w + 1", "[250d6, 1]", "250d6k200")
	// st edits whose value is not a number, a list of edits, a multiplier edit, a computed edit (the observer sees each)
	for _, v := range []string{"1", "1.5", "'abc'", "null", "[1]", "xs", "xa", "xd", "xf", "1 ? 'abc' : 2", "0 || 'a'", "2d1"} {
		progs = append(progs, "^stA-"+v, "^stA+"+v, "^stA-="+v, "^stA+="+v, "^stA:"+v, "^stA*2:"+v, "^st&A="+v, "^stA-"+v+" B+1", "^stA1 B-"+v)
	}
	for _, p := range progs {
		for ext := 0; ext < extCount; ext++ {
			emit("transparent", c17Case{Kind: "transparent", Src: p, Ext: ext})
		}
	}
	for _, t := range c17ActTemplates {
		for _, o := range c17Operands {
			emit("acting", c17Case{Kind: "acting", Tmpl: t.t, Op: o.text, Loop: t.loop, Src: strings.ReplaceAll(t.t, "@", o.text)})
			// the same, with parsers registered BEFORE the acting ones that read ahead and decline without rewinding
			emit("acting", c17Case{Kind: "acting", Tmpl: t.t, Op: o.text, Loop: t.loop, Src: strings.ReplaceAll(t.t, "@", o.text), Ext: 1})
			// the same, with the extensions registered one after the other on a VM that evaluates something in between
			emit("acting", c17Case{Kind: "acting", Tmpl: t.t, Op: o.text, Loop: t.loop, Src: strings.ReplaceAll(t.t, "@", o.text), Ext: 2})
		}
	}
	c17MoreEnumerate(tier, emit)
}

type c17Obs struct {
	err, ret, detail, rest, attrs string
	panicSite                   string
}

func c17Eval(vm *ds.Context, src string) c17Obs {
	var o c17Obs
	draws := 0
	ds.VerifRollHook = func(s *rand.PCGSource, sides ds.IntType) (ds.IntType, bool) {
		draws++
		return ds.IntType((draws*5+1)%int(sides) + 1), true
	}
	defer func() { ds.VerifRollHook = nil }()
	site, p := harn.Guard(func() {
		if err := vm.Run(src); err != nil {
			o.err = "error"
			return
		}
		o.ret = drv.Canon(vm.Ret)
		o.detail = vm.GetDetailText()
		o.rest = vm.RestInput
	})
	if p {
		o.panicSite = site
	}
	o.attrs = drv.CanonAttrs(vm.Attrs)
	return o
}

func c17Run(raw json.RawMessage) harn.Result {
	var c c17Case
	if err := json.Unmarshal(raw, &c); err != nil {
		panic(err)
	}
	res := harn.Result{Stats: map[string]int64{}, Nontrivial: true, Outcome: c.Kind}
	ds.VerifStepHook = nil
	viol := func(sig, what string) {
		if len(res.Violations) < 2 {
			res.Violations = append(res.Violations, harn.Violation{Signature: sig, What: what})
		}
	}
	newVM := func() *ds.Context {
		vm := drv.NewVM(drv.AllOn())
		if err := vm.Run(c03Prelude); err != nil {
			panic(err)
		}
		if c.Kind == "transparent" && len(c.Src)%6 == 2 {
			drv.WarmUp(vm) // a sixth of the transparent cases: both VMs well used before the extensions are installed
		}
		return vm
	}
	switch c.Kind {
	case "stream-expr", "acting-hooks":
		c17MoreRun(c, &res, viol, newVM)
	case "odd-extensions":
		c17OddRun(c, &res, viol, newVM)
	case "transparent":
		base := c17Eval(newVM(), c.Src)
		vm := newVM()
		calls := 0
		c17Install(vm, c.Ext, &calls)
		got := c17Eval(vm, c.Src)
		if got.panicSite != "" {
			viol(got.panicSite, fmt.Sprintf("program %q with extension set %d: panic", c.Src, c.Ext))
			return res
		}
		if calls != 0 {
			viol("C17:handler-ran-without-match", fmt.Sprintf("program %q extension set %d: a handler of a syntax that does not occur ran %d times", c.Src, c.Ext, calls))
		}
		same := got.err == base.err && got.ret == base.ret && got.rest == base.rest && got.attrs == base.attrs && (got.detail == base.detail || sameModuloDictOrder(got.detail, base.detail))
		if !same {
			viol(fmt.Sprintf("C17:not-transparent:set%d", c.Ext), fmt.Sprintf("program %q: without extensions %+v; with extension set %d %+v", c.Src, base, c.Ext, got))
		}
		if base.err != "" {
			res.Outcome = "transparent/rejected"
		}
	case "acting":
		vm := newVM()
		type call struct {
			groups  []string
			payload any
		}
		var log []call
		var returned []*ds.VMValue
		if c.Ext == 1 {
			for k := 1; k <= 3; k++ {
				k := k
				_ = vm.RegCustomDiceParser(func(ctx *ds.Context, st *ds.CustomDiceStream) (*ds.CustomDiceParseResult, error) {
					for i := 0; i < k; i++ {
						st.Read()
					}
					if k == 2 {
						return nil, nil
					}
					return &ds.CustomDiceParseResult{Matched: false}, nil
				}, func(ctx *ds.Context, groups []string, payload any) (*ds.VMValue, string, error) {
					return ds.NewIntVal(-1), "", nil
				})
			}
		}
		_ = vm.RegCustomDice(`E(\d+)`, func(ctx *ds.Context, groups []string, payload any) (*ds.VMValue, string, error) {
			log = append(log, call{append([]string{}, groups...), payload})
			n, _ := strconv.Atoi(groups[1])
			for i := range groups {
				groups[i] = "overwritten by the handler" // the argument is the handler's own: the next evaluation must see the matched text again
			}
			v := ds.NewIntVal(ds.IntType(n))
			returned = append(returned, v)
			return v, "", nil
		})
		if c.Ext == 2 {
			// the regex extension is in use before the stream parser is registered
			for _, warm := range []string{"1 + 1", "E7 + 1", "x", "C1T2"} {
				_ = vm.Run(warm)
			}
			log, returned = nil, nil
		}
		type pl struct{ a, b int }
		_ = vm.RegCustomDiceParser(func(ctx *ds.Context, st *ds.CustomDiceStream) (*ds.CustomDiceParseResult, error) {
			r, ok := st.Read()
			if !ok || r != 'C' {
				st.ResetAttempt()
				return &ds.CustomDiceParseResult{Matched: false}, nil
			}
			a, ok := st.ReadDigits()
			if !ok {
				st.ResetAttempt()
				return &ds.CustomDiceParseResult{Matched: false}, nil
			}
			r, ok = st.Read()
			if !ok || r != 'T' {
				st.ResetAttempt()
				return &ds.CustomDiceParseResult{Matched: false}, nil
			}
			b, ok := st.ReadDigits()
			if !ok {
				st.ResetAttempt()
				return &ds.CustomDiceParseResult{Matched: false}, nil
			}
			ai, _ := strconv.Atoi(a)
			bi, _ := strconv.Atoi(b)
			return &ds.CustomDiceParseResult{Matched: true, Groups: []string{"", a, b}, Payload: &pl{ai, bi}}, nil
		}, func(ctx *ds.Context, groups []string, payload any) (*ds.VMValue, string, error) {
			log = append(log, call{append([]string{}, groups...), payload})
			p, _ := payload.(*pl)
			for i := range groups {
				groups[i] = "overwritten by the handler"
			}
			if p == nil {
				return nil, "", fmt.Errorf("payload lost")
			}
			v := ds.NewIntVal(ds.IntType(p.a + p.b))
			returned = append(returned, v)
			return v, "", nil
		})
		got := c17Eval(vm, c.Src)
		// mutate the values the handlers returned: the VM must have used copies
		for _, v := range returned {
			v.Value = ds.IntType(-777)
		}
		if got.panicSite != "" {
			viol(got.panicSite, fmt.Sprintf("program %q: panic", c.Src))
			return res
		}
		after := ""
		if got.err == "" && vm.Ret != nil {
			after = drv.Canon(vm.Ret)
		}
		// reference: the operand replaced by a number of the same length with the operand's value
		val := 0
		for _, o := range c17Operands {
			if o.text == c.Op {
				val = o.val
			}
		}
		num := fmt.Sprintf("%0*d", len(c.Op), val)
		ref := c17Eval(newVM(), strings.ReplaceAll(c.Tmpl, "@", num))
		if ref.err != "" {
			panic("reference program rejected: " + strings.ReplaceAll(c.Tmpl, "@", num))
		}
		cls := "other"
		switch {
		case strings.HasPrefix(c.Tmpl, "@"):
			cls = "at-start"
		}
		if got.err != "" {
			viol("C17:matching-operand-rejected", fmt.Sprintf("program %q (operand %s) is rejected although %q is accepted (class %s)", c.Src, c.Op, strings.ReplaceAll(c.Tmpl, "@", num), cls))
			return res
		}
		if got.ret != ref.ret || strings.ReplaceAll(got.attrs, c.Op, num) != ref.attrs || got.rest != ref.rest {
			viol("C17:operand-value-not-used-like-a-number", fmt.Sprintf("program %q: value %s vars %s rest %q; with the operand written as the number %s: value %s vars %s rest %q", c.Src, got.ret, got.attrs, got.rest, num, ref.ret, ref.attrs, ref.rest))
		}
		// the process text read for the first time AFTER the handler's objects were overwritten must still show the values used
		{
			vmA, vmB := newVM(), newVM()
			var retA []*ds.VMValue
			for _, pair := range []struct {
				vm   *ds.Context
				keep *[]*ds.VMValue
			}{{vmA, &retA}, {vmB, nil}} {
				keep := pair.keep
				_ = pair.vm.RegCustomDice(`E(\d+)`, func(ctx *ds.Context, groups []string, payload any) (*ds.VMValue, string, error) {
					n, _ := strconv.Atoi(groups[1])
					v := ds.NewIntVal(ds.IntType(n))
					if keep != nil {
						*keep = append(*keep, v)
					}
					return v, "", nil
				})
			}
			if strings.HasPrefix(c.Op, "E") {
				errA, errB := vmA.Run(c.Src), vmB.Run(c.Src)
				for _, v := range retA {
					v.Value = ds.IntType(-777)
				}
				if errA == nil && errB == nil {
					if a, b := vmA.GetDetailText(), vmB.GetDetailText(); a != b {
						viol("C17:returned-value-aliased", fmt.Sprintf("program %q: after the handler overwrote the object it had returned, the process text reads %q instead of %q", c.Src, a, b))
					}
				}
			}
		}
		if after != got.ret {
			viol("C17:returned-value-aliased", fmt.Sprintf("program %q: mutating the value a handler returned changed the result from %s to %s", c.Src, got.ret, after))
		}
		occ := strings.Count(c.Tmpl, "@")
		wantCalls := c.Loop
		_ = occ
		if len(log) != wantCalls {
			viol("C17:handler-call-count", fmt.Sprintf("program %q: handler ran %d times, the operand is evaluated %d times", c.Src, len(log), wantCalls))
		}
		for _, l := range log {
			if len(l.groups) == 0 || l.groups[0] != c.Op {
				viol("C17:groups", fmt.Sprintf("program %q: handler received groups %q, matched text is %q", c.Src, l.groups, c.Op))
			}
			if strings.HasPrefix(c.Op, "E") && (len(l.groups) != 2 || l.groups[1] != c.Op[1:]) {
				viol("C17:groups", fmt.Sprintf("program %q: capture groups %q", c.Src, l.groups))
			}
			if strings.HasPrefix(c.Op, "C") {
				if p, ok := l.payload.(*pl); !ok || p == nil || len(l.groups) != 3 {
					viol("C17:payload", fmt.Sprintf("program %q: payload %v groups %q", c.Src, l.payload, l.groups))
				}
			}
		}
	}
	return res
}

func init() {
	harn.Register(&harn.Check{
		ID:   "C17",
		Rule: "transparent: every program of a pool (~1400: construct-covering programs, program+broken-tail inputs, dice expressions, near-miss operands such as 'E', 'Efoo', 'C1T') x 7 extension sets (never-matching regex; never-matching stream parser reading 0..3 runes ahead, resetting or not; a regex whose syntax occurs nowhere; identity load/store hooks; identity detail rewriters; all together): error-ness, value, detail text, rest text and variables must equal the run without extensions, and no handler may run. acting: 37 templates placing a matching operand (regex 'E<n>' and stream-parsed 'C<a>T<b>') at every operand position (start, after operators, in parentheses, arrays, call arguments, assignments, template holes, function and loop bodies, untaken branches, across line breaks) x 3 operands: the handler must run exactly once per evaluation of the operand with the matched text as groups[0], the captures and the payload, although it overwrites the groups slice it is given after recording it, its returned value must be used by copy, and value / variables / rest must equal those of the program with the operand written as a number of the same length. stream-expr: a stream parser for R<expression> built on the rest of the stream API (Unread, ReadExpr, Commit, Remaining, Current, Consumed) over the operand templates, 57 adversarial operands x 9 contexts and every token string of <= 2 tokens (thorough 3) containing R: never a panic, and an accepted program has the value of the program with each consumed R<T> written as (<T>). acting-hooks: 52 programs x 5 acting hooks (load-pre overwrite, load-pre rename, store solved, store overwrite, load-post replace): a hook that never fired changes nothing; a swallowed store never reaches the variables; an overwritten store stores the overwrite; a load hook never changes variables the program does not assign; and for read-only programs the value equals that of the program with x written as the name / value the hook supplies. odd-extensions: 42 programs x 8 extensions that use the corners of the API (regex matching the empty string, parser returning nil / Matched without consuming / an error, handler returning an error / nil, unmatched optional group, no Groups + Display + detail text): never a panic, never-matching ones are transparent, failures surface as errors, groups[0] is the matched text. Distinct by (program, extension set) / (template, operand) / (program, hook).",
		Enumerate: c17Enumerate,
		Run:       c17Run,
		Budget:    map[string]time.Duration{"quick": 400 * time.Second, "thorough": 40 * time.Minute},
	})
}
