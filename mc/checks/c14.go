package checks

import (
	"bytes"
	"encoding/json"
	"fmt"
	"strconv"
	"strings"
	"time"

	ds "github.com/sealdice/dicescript"
	"golang.org/x/exp/rand"
	"verifmc/choice"
	"verifmc/drv"
	"verifmc/harn"
	"verifmc/rules"
)

// C14 — the calculation-process text explains the result and observing it is harmless.

type c14Term struct {
	Src   string
	Body  string `json:",omitempty"` // computed: the expression the name stands for (default "2d2")
	Label string `json:",omitempty"` // what the annotation starts with when it is not the source (faceless dice: "2d" is shown as "2D3")
	Kind  string // int | common | fate | coc | wod | dc | nested | chain | var | computed
	X, Y, Mode, N int
	Min, Max      *int `json:",omitempty"`
	Bonus         bool `json:",omitempty"`
	LE            bool `json:",omitempty"` // wod: successes are the dice <= Thr (q suffix) instead of >= Thr
	Pool, Add, Sides, Thr int
	Z   int `json:",omitempty"`
	Val int `json:",omitempty"` // int / var value
}

type c14Case struct {
	Pieces []string  // alternating: text, term index marker "\x00<i>", text ...
	Terms  []c14Term
	Src    string
	MaxPts int
	// Script / ScriptFace: scripted faces instead of enumeration: the first Script draws show ScriptFace, all later ones 1
	Script, ScriptFace int `json:",omitempty"`
}

var c14Terms = []c14Term{
	{Src: "3", Kind: "int", Val: 3}, {Src: "10", Kind: "int", Val: 10},
	{Src: "2d3", Kind: "common", X: 2, Y: 3}, {Src: "1d2", Kind: "common", X: 1, Y: 2}, {Src: "3d2k2", Kind: "common", X: 3, Y: 2, Mode: 2, N: 2},
	{Src: "2d3q1", Kind: "common", X: 2, Y: 3, Mode: 1, N: 1}, {Src: "2d2min2", Kind: "common", X: 2, Y: 2, Min: ip(2)}, {Src: "d3", Kind: "common", X: 1, Y: 3},
	{Src: "d2优势", Kind: "common", X: 2, Y: 2, Mode: 2, N: 1}, {Src: "2d3dl1", Kind: "common", X: 2, Y: 3, Mode: 3, N: 1},
	{Src: "f", Kind: "fate"}, {Src: "b", Kind: "coc", Bonus: true, N: 1}, {Src: "p1", Kind: "coc", N: 1},
	{Src: "2a0m2k2", Kind: "wod", Pool: 2, Add: 0, Sides: 2, Thr: 2}, {Src: "1a2m2k1", Kind: "wod", Pool: 1, Add: 2, Sides: 2, Thr: 1}, {Src: "1c2m2", Kind: "dc", Pool: 1, Add: 2, Sides: 2},
	{Src: "(2d2)d2", Kind: "nested", X: 2, Y: 2, Z: 2}, {Src: "1d2d2", Kind: "chain", X: 1, Y: 2, Z: 2},
	{Src: "(1d2+1d2)d2", Kind: "nested2", X: 2, Y: 2, Z: 2}, {Src: "2d(1d2+1d2)", Kind: "nested2s", X: 2, Y: 2, Z: 2},
	{Src: "x", Kind: "var", Val: 4}, {Src: "力量", Kind: "var", Val: 7}, {Src: "cc", Kind: "computed", X: 2, Y: 2},
	// faceless dice: the number of sides comes from DefaultDiceSideExpr ("3" in this check) and the annotation names it
	{Src: "2d", Label: "2D3", Kind: "common", X: 2, Y: 3}, {Src: "3dk2", Label: "3D3kh2", Kind: "common", X: 3, Y: 3, Mode: 2, N: 2}, {Src: "2dq1", Label: "2D3kl1", Kind: "common", X: 2, Y: 3, Mode: 1, N: 1},
	// drop counts beyond the dice rolled (nothing kept), and a computed value whose body contains multi-byte characters (it runs from its precompiled form)
	{Src: "2d3dl3", Kind: "common", X: 2, Y: 3, Mode: 3, N: 3}, {Src: "1d3dh2", Kind: "common", X: 1, Y: 3, Mode: 4, N: 2}, {Src: "甲", Kind: "computed", X: 2, Y: 2, Mode: 2, N: 1, Body: "d2优势"},
	// WoD counting dice at most N (q), and chained dice whose first link ends in a parenthesised operand followed by a blank / line break
	{Src: "2a0m2q1", Kind: "wod", Pool: 2, Add: 0, Sides: 2, Thr: 1, LE: true}, {Src: "1a2m2q1", Kind: "wod", Pool: 1, Add: 2, Sides: 2, Thr: 1, LE: true},
	{Src: "2d(3)", Kind: "common", X: 2, Y: 3}, {Src: "(2)d(3)k(1)", Kind: "common", X: 2, Y: 3, Mode: 2, N: 1},
	{Src: "1d(2) d2", Kind: "chain", X: 1, Y: 2, Z: 2}, {Src: "1d(2)\nd2", Kind: "chain", X: 1, Y: 2, Z: 2},
	{Src: "2ddl1", Label: "2D3dl1", Kind: "common", X: 2, Y: 3, Mode: 3, N: 1}, {Src: "2ddh1", Label: "2D3dh1", Kind: "common", X: 2, Y: 3, Mode: 4, N: 1}, {Src: "2dmin2", Label: "2D3min2", Kind: "common", X: 2, Y: 3, Min: ip(2)}, {Src: "2dmax2", Label: "2D3max2", Kind: "common", X: 2, Y: 3, Max: ip(2)},
}

var c14Reduced = []int{0, 2, 4, 10, 11, 13, 16, 18, 21, 22, 24}

func c14Enumerate(tier string, seed int64, emit func(string, any)) {
	thorough := tier == "thorough"
	maxPts := 6
	if thorough {
		maxPts = 10
	}
	spacings := [][2]string{{"", ""}, {" ", " "}, {" ", "\n"}, {"  ", " "}, {"\n", ""}}
	variant := 0
	mk := func(stratum string, parts ...any) {
		// parts: strings (operators / parens) and ints (term indexes)
		variant++
		sp := spacings[variant%len(spacings)]
		var pieces []string
		var terms []c14Term
		var src strings.Builder
		cur := ""
		for _, p := range parts {
			switch v := p.(type) {
			case int:
				pieces = append(pieces, cur, fmt.Sprintf("\x00%d", len(terms)))
				cur = ""
				terms = append(terms, c14Terms[v])
				src.WriteString(c14Terms[v].Src)
			case string:
				s := v
				if s == "+" || s == "-" || s == "*" {
					s = sp[0] + s + sp[1]
				}
				cur += s
				src.WriteString(s)
			}
		}
		// blanks / a line break after the last term (they are not part of the expression, nor of its process text)
		if trail := []string{"", "", " ", " \n", "\t "}[variant%5]; trail != "" {
			cur += trail
			src.WriteString(trail)
		}
		pieces = append(pieces, cur)
		emit(stratum, c14Case{Pieces: pieces, Terms: terms, Src: src.String(), MaxPts: maxPts})
	}
	all := make([]int, len(c14Terms))
	for i := range all {
		all[i] = i
	}
	for _, a := range all {
		mk("1 term", a)
		mk("1 term", "-", a)
		mk("1 term", "(", a, ")")
	}
	ops := []string{"+", "-", "*"}
	for _, a := range all {
		for _, b := range all {
			for _, o := range ops {
				mk("2 terms", a, o, b)
			}
			mk("2 terms", "-", a, "+", b)
			mk("2 terms", "(", a, "+", b, ")")
		}
	}
	set3 := c14Reduced
	if thorough {
		set3 = all[:21] // most of the original term table (the nested2 / variable / computed terms come back through c14Reduced); the terms added later take part in the 1- and 2-term strata and, through c14Reduced, in this one
		for _, i := range c14Reduced {
			if i >= 21 {
				set3 = append(set3, i)
			}
		}
	}
	for _, a := range set3 {
		for _, b := range set3 {
			for _, c := range set3 {
				for i, o1 := range ops {
					for j, o2 := range ops {
						if (i+j+a+b+c)%3 != 0 { // each (a,b,c) keeps 3 of the 9 operator pairs; every operator pair occurs for every pair of neighbouring terms
							continue
						}
						mk("3 terms", a, o1, b, o2, c)
						mk("3 terms", "(", a, o1, b, ")", o2, c)
						mk("3 terms", a, o1, "(", b, o2, c, ")")
					}
				}
			}
		}
	}
	// repeated identifiers / two-line shapes seen in the crash corpus
	for _, s := range [][]any{{20, "+", 20}, {21, "*", 21, "+", 21}, {22, "+", 22}, {20, "+", 2, "+", 20}, {18, "+", 18}, {19, "*", 18}} {
		mk("repeats", s...)
	}
	// pools that explode beyond the listing limit (100 dice): scripted faces that reach the add-line but not the success line,
	// so that the text stays short; beyond the limit no dice are listed at all
	for _, k := range []int{60, 85, 86, 87, 90, 120} {
		for _, t := range []c14Term{{Src: "13a2k9", Kind: "wod", Pool: 13, Add: 2, Sides: 10, Thr: 9}, {Src: "14a2k9", Kind: "wod", Pool: 14, Add: 2, Sides: 10, Thr: 9}, {Src: "2a2k9", Kind: "wod", Pool: 2, Add: 2, Sides: 10, Thr: 9}, {Src: "13c2", Kind: "dc", Pool: 13, Add: 2, Sides: 10}} {
			emit("long explosions", c14Case{Pieces: []string{"", "\x000", " + 1"}, Terms: []c14Term{t}, Src: t.Src + " + 1", Script: k, ScriptFace: 5})
		}
	}
}

const c14Prelude = "x = 4; 力量 = 7; &cc = 2d2; &甲 = d2优势"

// facesNeeded consumes the faces one term uses and returns its value, or ok=false.
func c14TermValue(t c14Term, faces []int) (val int, used int, ok bool) {
	need := func(n int) bool { return len(faces) >= n }
	switch t.Kind {
	case "int", "var":
		return t.Val, 0, true
	case "common", "computed":
		if !need(t.X) {
			return 0, 0, false
		}
		v, _, _ := rules.Common(faces[:t.X], t.Mode, t.N, t.Min, t.Max)
		return v, t.X, true
	case "fate":
		if !need(4) {
			return 0, 0, false
		}
		return rules.Fate(faces[:4]), 4, true
	case "coc":
		if !need(1 + t.N) {
			return 0, 0, false
		}
		return rules.CoC(faces[0], faces[1:1+t.N], t.Bonus), 1 + t.N, true
	case "wod":
		v, _, _, u, ok := rules.WoD(faces, t.Pool, t.Add, t.Thr, !t.LE)
		return v, u, ok
	case "dc":
		v, _, _, u, ok := rules.DoubleCross(faces, t.Pool, t.Add)
		return v, u, ok
	case "nested", "chain", "nested2":
		if !need(t.X) {
			return 0, 0, false
		}
		first := sum(faces[:t.X])
		if !need(t.X + first) {
			return 0, 0, false
		}
		return sum(faces[t.X : t.X+first]), t.X + first, true
	case "nested2s": // 2d(1d2+1d2): the two inner dice give the number of sides; the explorer answers the outer dice within that range
		if !need(4) {
			return 0, 0, false
		}
		return faces[2] + faces[3], 4, true
	}
	return 0, 0, false
}

// evalInt: + - * with parentheses and unary minus over integers.
func evalInt(s string) (int, bool) {
	p := &intParser{s: s}
	v, ok := p.expr()
	p.ws()
	return v, ok && p.i == len(p.s)
}

type intParser struct {
	s string
	i int
}

func (p *intParser) ws() {
	for p.i < len(p.s) && (p.s[p.i] == ' ' || p.s[p.i] == '\n' || p.s[p.i] == '\t' || p.s[p.i] == '\r') {
		p.i++
	}
}
func (p *intParser) expr() (int, bool) {
	v, ok := p.term()
	for ok {
		p.ws()
		if p.i < len(p.s) && (p.s[p.i] == '+' || p.s[p.i] == '-') {
			op := p.s[p.i]
			p.i++
			var r int
			r, ok = p.term()
			if op == '+' {
				v += r
			} else {
				v -= r
			}
		} else {
			break
		}
	}
	return v, ok
}
func (p *intParser) term() (int, bool) {
	v, ok := p.unary()
	for ok {
		p.ws()
		if p.i < len(p.s) && p.s[p.i] == '*' {
			p.i++
			var r int
			r, ok = p.unary()
			v *= r
		} else {
			break
		}
	}
	return v, ok
}
func (p *intParser) unary() (int, bool) {
	p.ws()
	if p.i < len(p.s) && p.s[p.i] == '-' {
		p.i++
		v, ok := p.unary()
		return -v, ok
	}
	if p.i < len(p.s) && p.s[p.i] == '(' {
		p.i++
		v, ok := p.expr()
		p.ws()
		if !ok || p.i >= len(p.s) || p.s[p.i] != ')' {
			return 0, false
		}
		p.i++
		return v, true
	}
	j := p.i
	for j < len(p.s) && p.s[j] >= '0' && p.s[j] <= '9' {
		j++
	}
	if j == p.i {
		return 0, false
	}
	v, _ := strconv.Atoi(p.s[p.i:j])
	p.i = j
	return v, true
}

// squash removes white space: a term that ends in ')' carries the blanks after it inside its span, so they move into the annotation
func squash(s string) string {
	return strings.Join(strings.Fields(s), "")
}

// splitAnnotations returns the text with every value[annotation] reduced to the value, and the annotations in order.
func splitAnnotations(detail string) (plain string, anns []string, ok bool) {
	var sb strings.Builder
	for i := 0; i < len(detail); {
		if detail[i] == '[' {
			depth := 0
			j := i
			for ; j < len(detail); j++ {
				if detail[j] == '[' {
					depth++
				} else if detail[j] == ']' {
					depth--
					if depth == 0 {
						break
					}
				}
			}
			if j >= len(detail) {
				return "", nil, false
			}
			anns = append(anns, detail[i+1:j])
			i = j + 1
			continue
		}
		sb.WriteByte(detail[i])
		i++
	}
	return sb.String(), anns, true
}

func c14Run(raw json.RawMessage) harn.Result {
	var c c14Case
	if err := json.Unmarshal(raw, &c); err != nil {
		panic(err)
	}
	res := harn.Result{Stats: map[string]int64{}, Nontrivial: true}
	viol := func(sig, what string) {
		if len(res.Violations) < 2 {
			res.Violations = append(res.Violations, harn.Violation{Signature: sig, What: fmt.Sprintf("expression %q: %s", c.Src, what)})
		}
	}
	cfg := drv.AllOn()
	cfg.Seed = 5
	cfg.DefExpr = "3"
	vm := drv.NewVM(cfg)
	if err := vm.Run(c14Prelude); err != nil {
		panic(err)
	}
	if len(c.Src)%12 == 1 {
		drv.WarmUp(vm) // one case in twelve on a well-used VM
	}
	if len(c.Src)%2 == 0 {
		// every expression is printed in spacing variants of both parities: half of its texts run with detail rewriters
		// installed that return their input (transparent by C17; all oracles below apply unchanged, in particular
		// "two calls give the same text" when the cache is not what makes them equal)
		vm.Config.CustomDetailSpanRewriteFunc = func(ctx *ds.Context, defaultDetail string, span ds.BufferSpan, isRoot bool, data []byte, off int) string {
			return defaultDetail
		}
		vm.Config.CustomDetailRewriteFunc = func(ctx *ds.Context, curDetail string, span ds.BufferSpan, data []byte, off int) string {
			return curDetail
		}
	}
	if err := vm.Parse(c.Src); err != nil {
		viol("MACHINERY:generator", "rejected: "+err.Error())
		return res
	}
	var cur *choice.Ctx
	var faces []int
	ds.VerifStepHook = nil
	ds.VerifRollHook = func(src *rand.PCGSource, sides ds.IntType) (ds.IntType, bool) {
		var f int
		if c.Script > 0 {
			f = 1
			if len(faces) < c.Script {
				f = c.ScriptFace
			}
		} else if sides == 100 {
			// D100: representative faces covering every tens/units/zero case
			reps := []int{1, 9, 10, 11, 50, 90, 99, 100}
			f = reps[cur.Choose(len(reps))]
		} else {
			f = cur.Choose(int(sides)) + 1
		}
		faces = append(faces, f)
		return ds.IntType(f), true
	}
	defer func() { ds.VerifRollHook = nil }()
	nAnnotated := 0
	for _, t := range c.Terms {
		if t.Kind != "int" {
			nAnnotated++
		}
	}
	outcomes := map[int]bool{}
	st := choice.Explore(c.MaxPts, -1, func(cc *choice.Ctx) {
		if len(res.Violations) > 0 {
			return
		}
		cur = cc
		faces = faces[:0]
		vm.VerifResetForRerun()
		if err := vm.RunAfterParsed(); err != nil {
			viol("C14:run-error", err.Error())
			return
		}
		if strings.TrimSpace(vm.RestInput) != "" {
			viol("MACHINERY:generator", "rest "+vm.RestInput)
			return
		}
		ret, ok := vm.Ret.ReadInt()
		if !ok {
			viol("C14:non-int", vm.Ret.ToString())
			return
		}
		outcomes[int(ret)] = true
		attrs0 := drv.CanonAttrs(vm.Attrs)
		seed0, _ := vm.GetCurSeed()
		nfaces := len(faces)
		var d1, d2 string
		if site, p := harn.Guard(func() { d1 = vm.GetDetailText(); d2 = vm.GetDetailText() }); p {
			viol(site, "panic in GetDetailText")
			return
		}
		seed1, _ := vm.GetCurSeed()
		if d1 != d2 {
			viol("C14:not-idempotent", fmt.Sprintf("two calls give %q and %q", d1, d2))
		}
		if r2, _ := vm.Ret.ReadInt(); r2 != ret || drv.CanonAttrs(vm.Attrs) != attrs0 || !bytes.Equal(seed0, seed1) || len(faces) != nfaces {
			viol("C14:observation-has-effects", "requesting the text changed the result, the variables, the generator state or drew dice")
		}
		// expected: values of the terms from the faces, left to right
		f := faces
		vals := make([]int, len(c.Terms))
		used := make([][]int, len(c.Terms))
		for i, t := range c.Terms {
			v, u, ok := c14TermValue(t, f)
			if !ok {
				viol("C14:dice-count", fmt.Sprintf("faces %v do not cover the terms by the rules", faces))
				return
			}
			vals[i], used[i] = v, f[:u]
			f = f[u:]
		}
		if len(f) != 0 {
			viol("C14:dice-count", fmt.Sprintf("%d extra dice drawn (faces %v)", len(f), faces))
			return
		}
		var want strings.Builder
		ti := 0
		for _, p := range c.Pieces {
			if strings.HasPrefix(p, "\x00") {
				want.WriteString(strconv.Itoa(vals[ti]))
				ti++
			} else {
				want.WriteString(p)
			}
		}
		wantPlain := strings.TrimSpace(want.String())
		wantVal, okv := evalInt(wantPlain)
		if !okv {
			panic("own evaluator cannot read " + wantPlain)
		}
		if wantVal != int(ret) {
			viol("C14:result", fmt.Sprintf("faces %v: the rules give %s = %d, result is %d", faces, wantPlain, wantVal, ret))
			return
		}
		if d1 == "" {
			if len(c.Terms) == 1 || nAnnotated == 0 || wantPlain == strconv.Itoa(int(ret)) {
				return // documented elision: the text equals the result
			}
			viol("C14:empty-text", fmt.Sprintf("faces %v: empty process text, expected %q with annotations", faces, wantPlain))
			return
		}
		plain, anns, okp := splitAnnotations(d1)
		if !okp {
			viol("C14:unbalanced", fmt.Sprintf("unbalanced annotation brackets in %q", d1))
			return
		}
		if squash(plain) != squash(wantPlain) {
			viol("C14:text-without-annotations", fmt.Sprintf("faces %v: text %q without annotations is %q, expected the source with each roll replaced by its value: %q", faces, d1, strings.TrimSpace(plain), wantPlain))
			return
		}
		if got, okg := evalInt(plain); !okg || got != int(ret) {
			viol("C14:text-does-not-evaluate-to-result", fmt.Sprintf("text %q without annotations %q evaluates to %d (ok=%v), result %d", d1, plain, got, okg, ret))
			return
		}
		// annotations: one per non-literal term, in order (a single annotation may be elided when it would only repeat the source)
		if len(anns) != nAnnotated {
			if !(nAnnotated == 1 && len(anns) == 0) {
				viol("C14:annotation-count", fmt.Sprintf("faces %v: %d annotations in %q, expected %d", faces, len(anns), d1, nAnnotated))
			}
			return
		}
		ai := 0
		for i, t := range c.Terms {
			if t.Kind == "int" {
				continue
			}
			a := anns[ai]
			ai++
			label := t.Src
			if t.Label != "" {
				label = t.Label
			}
			if a == "略" {
				continue // an annotation longer than 400 bytes is replaced by this mark
			}
			if !strings.HasPrefix(a, label) {
				viol("C14:annotation-source", fmt.Sprintf("annotation %q of term %q does not start with %q", a, t.Src, label))
				return
			}
			rest := strings.TrimLeft(a[len(label):], " \t\r\n") // (a blank between a closing parenthesis and the operator belongs to the term's span)
			if msg := c14CheckAnnotation(t, rest, used[i], vals[i]); msg != "" {
				viol("C14:annotation:"+t.Kind, fmt.Sprintf("faces %v term %q annotation %q: %s (full text %q)", faces, t.Src, a, msg, d1))
				return
			}
		}
	})
	res.Stats["executions"] = st.Runs
	res.Stats["executions_truncated"] = st.Forced
	// history: the SAME source evaluated twice on one VM through Run (Parse path), with different dice: the second text must
	// explain the second result (nothing of the first evaluation's text may survive)
	if len(res.Violations) == 0 && nAnnotated > 0 {
		vm2 := drv.NewVM(cfg)
		_ = vm2.Run(c14Prelude)
		pick, k := 0, 0
		ds.VerifRollHook = func(src *rand.PCGSource, sides ds.IntType) (ds.IntType, bool) {
			if pick == 0 {
				return 1, true
			}
			k++ // second evaluation: faces sides, 1, 2, ... (varied, and exploding pools still terminate)
			return ds.IntType((k+int(sides)-2)%int(sides)) + 1, true
		}
		var first, second string
		var r1, r2 int64
		if err := vm2.Run(c.Src); err == nil {
			first = vm2.GetDetailText()
			v, _ := vm2.Ret.ReadInt()
			r1 = int64(v)
			pick = 1
			if err := vm2.Run(c.Src); err == nil {
				second = vm2.GetDetailText()
				v, _ := vm2.Ret.ReadInt()
				r2 = int64(v)
				// a fresh VM with the same faces gives the text the second evaluation must show
				vm3 := drv.NewVM(cfg)
				_ = vm3.Run(c14Prelude)
				k = 0
				if err := vm3.Run(c.Src); err == nil {
					if want := vm3.GetDetailText(); want != second {
						viol("C14:stale-text-after-rerun", fmt.Sprintf("evaluated twice on one VM (all dice 1 -> result %d, text %q; then varied dice -> result %d): second text %q, a fresh VM with the same dice shows %q", r1, first, r2, second, want))
					}
				}
			}
		}
		res.Stats["executions"] += 3
	}
	if len(outcomes) > 1 {
		res.Outcome = "varied"
	} else {
		res.Outcome = "single"
	}
	res.Sample = fmt.Sprintf("%q: %d face sequences, %d distinct results", c.Src, st.Runs, len(outcomes))
	return res
}

// c14CheckAnnotation validates what follows the source text inside an annotation.
func c14CheckAnnotation(t c14Term, rest string, faces []int, val int) string {
	switch t.Kind {
	case "var":
		if rest != "" {
			return "a plain variable has nothing to list"
		}
		return ""
	case "computed":
		// value[cc=value[2d2=a+b]] : "=" + inner process text of the computed expression
		if !strings.HasPrefix(rest, "=") {
			return "computed value without '=' detail"
		}
		inner := strings.TrimSuffix(rest[1:], "="+strconv.Itoa(val)) // [name=<inner process text>=<value>]
		plain, anns, ok := splitAnnotations(inner)
		if !ok || strings.TrimSpace(plain) != strconv.Itoa(val) {
			return fmt.Sprintf("inner text %q does not reduce to the value %d", inner, val)
		}
		if len(anns) == 1 {
			sub := t
			sub.Kind = "common"
			sub.Src = "2d2"
			if t.Body != "" {
				sub.Src = t.Body
			}
			if !strings.HasPrefix(anns[0], sub.Src) {
				return "inner annotation does not name the computed expression"
			}
			return c14CheckAnnotation(sub, anns[0][len(sub.Src):], faces, val)
		}
		return ""
	}
	if t.Kind == "chain" || t.Kind == "nested2" || t.Kind == "nested2s" {
		return "" // several spans in one group produces two adjacent spans reported as [1d2d2,1d2=v]; covered by the text/evaluation oracle
	}
	if rest == "" {
		// text elided because it equals the value: only legitimate when the listing IS the value
		switch t.Kind {
		case "common":
			if len(faces) == 1 || t.Mode != 0 && false {
				return ""
			}
			if msg := checkCommonText(strconv.Itoa(val), faces, t.Mode, t.N, t.Min, t.Max, val); msg != "" {
				return "listing elided but " + msg
			}
			return ""
		}
		return "dice listing missing"
	}
	if !strings.HasPrefix(rest, "=") {
		return "expected '=' after the source"
	}
	text := rest[1:]
	switch t.Kind {
	case "common":
		return checkCommonText(text, faces, t.Mode, t.N, t.Min, t.Max, val)
	case "fate":
		want := ""
		for _, x := range faces {
			want += string("-0+"[x-1])
		}
		if text != want {
			return fmt.Sprintf("lists %q, rolled %q", text, want)
		}
	case "coc":
		ns := atoiAll(strings.Replace(text, "D100", "D", 1))
		exp := []int{faces[0]}
		for _, e := range faces[1:] {
			exp = append(exp, e%10)
		}
		if !equalInts(ns, exp) {
			return fmt.Sprintf("lists %v, rolled %v", ns, exp)
		}
	case "wod", "dc":
		hdr := atoiAll(strings.SplitN(text, "{", 2)[0])
		if len(hdr) < 2 || hdr[0] != val || hdr[1] != len(faces) {
			return fmt.Sprintf("header does not say %d/%d", val, len(faces))
		}
		k, stars := 0, 0
		for _, r := range parseRounds(text) {
			for _, d := range r {
				if k >= len(faces) || d.face != faces[k] {
					return fmt.Sprintf("die %d listed as %d", k+1, d.face)
				}
				if d.star {
					stars++
				}
				k++
			}
		}
		if t.Kind == "wod" && stars != val {
			return fmt.Sprintf("%d dice carry the success mark, the term's value is %d", stars, val)
		}
		if t.Pool >= 15 || len(faces) > 100 {
			if strings.Contains(text, "{") {
				return fmt.Sprintf("%d dice from a pool of %d: beyond the listing limits no dice may be listed at all", len(faces), t.Pool)
			}
			return ""
		}
		if k != len(faces) {
			return fmt.Sprintf("%d dice listed, %d rolled", k, len(faces))
		}
	case "nested":
		// (2d2)d2 = a+b+.. , 2d2=first
		parts := strings.Split(text, ",")
		first := sum(faces[:t.X])
		if len(parts) != 2 || parts[1] != fmt.Sprintf("%dd%d=%d", t.X, t.Y, first) {
			return fmt.Sprintf("sub-roll not reported as %dd%d=%d", t.X, t.Y, first)
		}
		return checkCommonText(parts[0], faces[t.X:], 0, 0, nil, nil, val)
	case "chain":
		return "" // 1d2d2 produces two adjacent spans; covered by the text/evaluation oracle
	}
	return ""
}

func init() {
	harn.Register(&harn.Check{
		ID:   "C14",
		Rule: "each case is one expression of <= 3 terms (int literals, XdY with keep/drop/min, advantage, Fate, CoC, WoD, Double Cross, nested and chained dice, int variables incl. a multi-byte name, a computed dice variable) joined by + - * with optional parentheses / unary minus, printed in 5 spacing variants incl. line breaks; for it EVERY sequence of die faces (first 6 dice, thorough 10; beyond: face 1; a D100 takes 8 representative faces) is enumerated through VerifRoll. Oracle per execution: the text with annotations deleted equals the source with each roll replaced by the value the independent rules give for the faces drawn, and evaluates (own evaluator) to the result; one annotation per non-literal term, starting with the term's source, listing exactly the faces drawn with the right total; GetDetailText twice gives the same string and leaves result, variables, generator state and draw count unchanged; texts of even length (every expression has spacing variants of both parities) run with detail rewriters installed that return their input; the same source evaluated twice on one VM with different dice shows the text of the second evaluation. Distinct by source text; all cases roll or load.",
		Enumerate: c14Enumerate,
		Run:       c14Run,
		Budget:    map[string]time.Duration{"quick": 400 * time.Second, "thorough": 40 * time.Minute},
	})
}
