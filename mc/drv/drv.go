// Package drv runs one source text on one real dicescript Context under one
// configuration and records the standard observation sequence.
package drv

import (
	"fmt"
	"regexp"
	"runtime/debug"
	"sort"
	"strings"

	ds "github.com/sealdice/dicescript"
	"verifmc/harn"
)

// Cfg is a JSON-serialisable VM configuration.
type Cfg struct {
	WoD, CoC, Fate, DC         bool
	NoBitwise, NoStmts, NoNDice bool
	IgnoreDiv0                 bool
	Min, Max                   bool
	DefExpr                    string `json:",omitempty"`
	OpLimit                    int64  `json:",omitempty"`
	ParseLimit                 uint64 `json:",omitempty"`
	Lang                       int    `json:",omitempty"`
	Seed                       int64  `json:",omitempty"` // 0 = unseeded; else 16 seed bytes derived from it
	Hooks                      bool   `json:",omitempty"` // every host extension point installed as an observer / identity
	Host                       bool   `json:",omitempty"` // host-supplied variables behind GlobalValueLoadFunc (InstallHostValues)
}

func AllOn() Cfg { return Cfg{WoD: true, CoC: true, Fate: true, DC: true} }

func (c Cfg) String() string {
	var p []string
	add := func(b bool, s string) {
		if b {
			p = append(p, s)
		}
	}
	add(c.WoD, "wod")
	add(c.CoC, "coc")
	add(c.Fate, "fate")
	add(c.DC, "dc")
	add(c.NoBitwise, "nobit")
	add(c.NoStmts, "nostmt")
	add(c.NoNDice, "nondice")
	add(c.IgnoreDiv0, "div0")
	add(c.Min, "min")
	add(c.Max, "max")
	if c.DefExpr != "" {
		p = append(p, "def="+c.DefExpr)
	}
	if c.OpLimit != 0 {
		p = append(p, fmt.Sprintf("op=%d", c.OpLimit))
	}
	if c.ParseLimit != 0 {
		p = append(p, fmt.Sprintf("parse=%d", c.ParseLimit))
	}
	if c.Seed != 0 {
		p = append(p, fmt.Sprintf("seed=%d", c.Seed))
	}
	add(c.Hooks, "hooks")
	add(c.Host, "host")
	return strings.Join(p, ",")
}

func SeedBytes(k int64) []byte {
	switch k {
	case -1:
		return make([]byte, 16) // the all-zero state is a state like any other
	case -2:
		return []byte{255, 255, 255, 255, 255, 255, 255, 255, 255, 255, 255, 255, 255, 255, 255, 255}
	case -3:
		return []byte{1, 2, 3} // not a valid state encoding: Init ignores the decoding error and keeps the zero state
	}
	b := make([]byte, 16)
	x := uint64(k)*0x9E3779B97F4A7C15 + 0x1234567
	for i := 0; i < 16; i++ {
		x ^= x << 13
		x ^= x >> 7
		x ^= x << 17
		b[i] = byte(x >> 24)
	}
	return b
}

func (c Cfg) Apply(vm *ds.Context) {
	vm.Config.EnableDiceWoD = c.WoD
	vm.Config.EnableDiceCoC = c.CoC
	vm.Config.EnableDiceFate = c.Fate
	vm.Config.EnableDiceDoubleCross = c.DC
	vm.Config.DisableBitwiseOp = c.NoBitwise
	vm.Config.DisableStmts = c.NoStmts
	vm.Config.DisableNDice = c.NoNDice
	vm.Config.IgnoreDiv0 = c.IgnoreDiv0
	vm.Config.DiceMinMode = c.Min
	vm.Config.DiceMaxMode = c.Max
	vm.Config.DefaultDiceSideExpr = c.DefExpr
	vm.Config.OpCountLimit = ds.IntType(c.OpLimit)
	vm.Config.ParseExprLimit = c.ParseLimit
	vm.Config.ParseErrorLanguage = c.Lang
	if c.Hooks {
		InstallNoopHooks(vm)
	}
	if c.Host {
		InstallHostValues(vm)
	}
}

// NewVM builds a context for the configuration (seeded when Seed != 0).
func NewVM(c Cfg) *ds.Context {
	vm := &ds.Context{}
	if c.Seed != 0 {
		vm.Seed = SeedBytes(c.Seed)
	}
	vm.Init()
	c.Apply(vm)
	return vm
}

// HostValues are the names served by InstallHostValues.
var HostValues = []string{"gi", "gs", "ga", "gd", "gc", "&gc", "gself", "gcs", "gca", "gf", "gfbad", "gn", "gn0", "gnf", "gfresh", "gfreshf"}

// InstallHostValues makes the VM see variables the way an embedding program supplies them: through
// GlobalValueLoadFunc / GlobalValueStoreFunc over a host-side table. The table holds plain values, computed values
// and functions that have never been compiled (NewComputedVal, NewFunctionValRaw: compiled lazily on first use),
// one that refers to itself, ones whose body is not valid syntax, a native object and a native function.
func InstallHostValues(vm *ds.Context) {
	tbl := map[string]*ds.VMValue{}
	tbl["gi"] = ds.NewIntVal(5)
	tbl["gs"] = ds.NewStrVal("str")
	tbl["ga"] = ds.NewArrayVal(ds.NewIntVal(1), ds.NewIntVal(2), ds.NewIntVal(3))
	tbl["gd"] = ds.NewDictValWithArrayMust(ds.NewStrVal("k"), ds.NewIntVal(1)).V()
	tbl["gc"] = ds.NewComputedVal("gi + 2d1")
	tbl["gself"] = ds.NewComputedVal("gself + 1")
	tbl["gcs"] = ds.NewComputedVal("1 +")
	ca := ds.NewComputedVal("this.k + gi")
	if cd, ok := ca.ReadComputed(); ok {
		cd.Attrs = &ds.ValueMap{}
		cd.Attrs.Store("k", ds.NewIntVal(3))
	}
	tbl["gca"] = ca
	tbl["gf"] = ds.NewFunctionValRaw(&ds.FunctionData{Expr: "a + gi", Name: "gf", Params: []string{"a"}})
	tbl["gfbad"] = ds.NewFunctionValRaw(&ds.FunctionData{Expr: "1 +", Name: "gfbad"})
	attrs := map[string]*ds.VMValue{}
	items := map[string]*ds.VMValue{}
	tbl["gn"] = ds.NewNativeObjectVal(&ds.NativeObjectData{
		Name:     "gn",
		AttrSet:  func(ctx *ds.Context, name string, v *ds.VMValue) { attrs[name] = v },
		AttrGet:  func(ctx *ds.Context, name string) *ds.VMValue { return attrs[name] },
		ItemSet:  func(ctx *ds.Context, index *ds.VMValue, v *ds.VMValue) { items[index.ToString()] = v },
		ItemGet:  func(ctx *ds.Context, index *ds.VMValue) *ds.VMValue { return items[index.ToString()] },
		DirFunc:  func(ctx *ds.Context) []*ds.VMValue { return []*ds.VMValue{ds.NewStrVal("a")} },
		ToString: func(ctx *ds.Context) string { return "<gn>" },
	})
	tbl["gn0"] = ds.NewNativeObjectVal(&ds.NativeObjectData{Name: "gn0"})
	tbl["gnf"] = ds.NewNativeFunctionVal(&ds.NativeFunctionData{
		Name: "gnf", Params: []string{"a"},
		NativeFunc: func(ctx *ds.Context, this *ds.VMValue, params []*ds.VMValue) *ds.VMValue { return params[0] },
	})
	vm.GlobalValueLoadFunc = func(name string) *ds.VMValue {
		switch name {
		case "gfresh": // a loader that builds the value anew on every load (never compiled, every time)
			return ds.NewComputedVal("gi + 2d1")
		case "gfreshf":
			return ds.NewFunctionValRaw(&ds.FunctionData{Expr: "gi + 2d1", Name: "gfreshf"})
		}
		return tbl[name]
	}
	vm.GlobalValueStoreFunc = func(name string, v *ds.VMValue) { tbl[name] = v }
}

// WarmUp puts a VM into a well-used state: every construct kind has been parsed and run on it (accepted, rejected at parse
// time, failed at run time, cut by the budget), with definitions under names (wu_*) no check uses. Checks that quantify over
// "any prior state" run part of their cases on a warmed VM; differential oracles warm both sides.
func WarmUp(vm *ds.Context) {
	saved := vm.Config
	vm.Config.EnableDiceWoD, vm.Config.EnableDiceCoC, vm.Config.EnableDiceFate, vm.Config.EnableDiceDoubleCross = true, true, true, true
	vm.Config.OpCountLimit = 400
	for _, p := range []string{
		"wu_a = [1,2]; wu_a.push(3); wu_d = {'k': wu_a}", "func wu_f(a){ if a { return 2d1 }; a }; wu_f(1) + wu_f(0)", "&wu_c = 2d1; wu_c; &wu_c.k = 1", "wu_i = 0; while wu_i < 3 { wu_i = wu_i + 1; if wu_i == 2 { continue } }",
		"`a{wu_i}{% wu_i %}`", "d4优势 + f + b + 2a11 + 2c11m10 + 2d", "^stwu_x:5 wu_y+1", "(1 +", "1 / 0", "while 1 { wu_i = wu_i + 1 }", "wu_a[0:1] = [7]; wu_a[0] = 9",
	} {
		func() {
			defer func() { _ = recover() }()
			_ = vm.Run(p)
			_ = vm.GetDetailText()
		}()
	}
	vm.Config = saved
}

// InstallNoopHooks installs every host extension point in the form a well-behaved host would: observers that read
// what they are given (as a host does) and identity transformers. None of them acts.
func InstallNoopHooks(vm *ds.Context) {
	vm.Config.HookValueLoadPre = func(ctx *ds.Context, name string) (string, *ds.VMValue) { return name, nil }
	vm.Config.HookValueLoadPost = func(ctx *ds.Context, name string, curVal *ds.VMValue, doCompute func(curVal *ds.VMValue) *ds.VMValue, detail *ds.BufferSpan) *ds.VMValue {
		return doCompute(curVal)
	}
	vm.Config.HookValueStore = func(ctx *ds.Context, name string, v *ds.VMValue) (*ds.VMValue, bool) { return nil, false }
	vm.Config.CustomDetailSpanRewriteFunc = func(ctx *ds.Context, defaultDetail string, span ds.BufferSpan, isRoot bool, data []byte, off int) string {
		return defaultDetail
	}
	vm.Config.CustomDetailRewriteFunc = func(ctx *ds.Context, curDetail string, span ds.BufferSpan, data []byte, off int) string {
		return curDetail
	}
	vm.Config.CallbackSt = func(_type string, name string, val *ds.VMValue, extra *ds.VMValue, op string, detail string) {
		_ = val.ToString() // a host reads the value it is told about; extra is documented as optional
		if extra != nil {
			_ = extra.ToString()
		}
	}
	vm.GlobalValueLoadFunc = func(name string) *ds.VMValue { return nil }
	vm.GlobalValueLoadOverwriteFunc = func(name string, curVal *ds.VMValue) *ds.VMValue { return curVal }
	store := map[string]*ds.VMValue{}
	vm.GlobalValueStoreFunc = func(name string, v *ds.VMValue) { store[name] = v }
}

// Obs is what one evaluation showed.
type Obs struct {
	Err       string // parse or run error text ("" = success)
	ParseErr  bool
	Panic     string // panic site signature ("" = none)
	PanicAt   string // which observation step panicked
	Ret       string // repr of result
	RetType   int
	Detail    string
	Matched   string
	Rest      string
	NumOp     int64
	Steps     int64
	Rolls     int64
}

// Canon renders a value canonically (dict keys sorted, cycles cut).
func Canon(v *ds.VMValue) string {
	var sb strings.Builder
	canon(&sb, v, map[any]bool{}, 0)
	return sb.String()
}

func canon(sb *strings.Builder, v *ds.VMValue, seen map[any]bool, depth int) {
	if sb.Len() > 1<<18 {
		// a container that holds the same sub-container many times over (a DAG) has an exponentially long rendering: cut it
		if !strings.HasSuffix(sb.String(), "<cut>") {
			sb.WriteString("<cut>")
		}
		return
	}
	if v == nil {
		sb.WriteString("NIL")
		return
	}
	if depth > 40 {
		sb.WriteString("<deep>")
		return
	}
	switch v.TypeId {
	case ds.VMTypeInt:
		i, _ := v.ReadInt()
		fmt.Fprintf(sb, "%d", int64(i))
	case ds.VMTypeFloat:
		f, _ := v.ReadFloat()
		fmt.Fprintf(sb, "f%v", f)
	case ds.VMTypeString:
		s, _ := v.ReadString()
		fmt.Fprintf(sb, "%q", s)
	case ds.VMTypeNull:
		sb.WriteString("null")
	case ds.VMTypeArray:
		ad, ok := v.ReadArray()
		if !ok || ad == nil {
			sb.WriteString("<badarray>")
			return
		}
		if seen[ad] {
			sb.WriteString("[...]")
			return
		}
		seen[ad] = true
		sb.WriteString("[")
		for i, e := range ad.List {
			if i > 0 {
				sb.WriteString(",")
			}
			canon(sb, e, seen, depth+1)
		}
		sb.WriteString("]")
		delete(seen, ad)
	case ds.VMTypeDict:
		dd, ok := v.ReadDictData()
		if !ok || dd == nil || dd.Dict == nil {
			sb.WriteString("<baddict>")
			return
		}
		if seen[dd] {
			sb.WriteString("{...}")
			return
		}
		seen[dd] = true
		type kv struct {
			k string
			v *ds.VMValue
		}
		var items []kv
		dd.Dict.Range(func(k string, val *ds.VMValue) bool {
			items = append(items, kv{k, val})
			return true
		})
		sort.Slice(items, func(i, j int) bool { return items[i].k < items[j].k })
		sb.WriteString("{")
		for i, it := range items {
			if i > 0 {
				sb.WriteString(",")
			}
			fmt.Fprintf(sb, "%q:", it.k)
			canon(sb, it.v, seen, depth+1)
		}
		sb.WriteString("}")
		delete(seen, dd)
	case ds.VMTypeComputedValue:
		cd, ok := v.ReadComputed()
		if !ok || cd == nil {
			sb.WriteString("<badcomputed>")
			return
		}
		fmt.Fprintf(sb, "&(%s)", strings.TrimSpace(cd.Expr))
		if cd.Attrs != nil {
			var ks []string
			m := map[string]*ds.VMValue{}
			cd.Attrs.Range(func(k string, val *ds.VMValue) bool {
				ks = append(ks, k)
				m[k] = val
				return true
			})
			sort.Strings(ks)
			if len(ks) > 0 {
				sb.WriteString("{")
				for i, k := range ks {
					if i > 0 {
						sb.WriteString(",")
					}
					fmt.Fprintf(sb, "%q:", k)
					canon(sb, m[k], seen, depth+1)
				}
				sb.WriteString("}")
			}
		}
	case ds.VMTypeFunction:
		fd, ok := v.ReadFunctionData()
		if !ok || fd == nil {
			sb.WriteString("<badfunc>")
			return
		}
		fmt.Fprintf(sb, "func %s(%s){%s}", fd.Name, strings.Join(fd.Params, ","), strings.TrimSpace(fd.Expr))
	case ds.VMTypeNativeFunction:
		fd, ok := v.ReadNativeFunctionData()
		if !ok || fd == nil {
			sb.WriteString("<badnfunc>")
			return
		}
		fmt.Fprintf(sb, "nfunc %s", fd.Name)
		if fd.Self != nil {
			sb.WriteString(" bound")
		}
	case ds.VMTypeNativeObject:
		sb.WriteString("nobject")
	default:
		fmt.Fprintf(sb, "<type %d>", v.TypeId)
	}
}

// CanonAttrs renders a variable map canonically.
func CanonAttrs(m *ds.ValueMap) string {
	if m == nil {
		return "<nil>"
	}
	var ks []string
	vals := map[string]*ds.VMValue{}
	m.Range(func(k string, v *ds.VMValue) bool {
		ks = append(ks, k)
		vals[k] = v
		return true
	})
	sort.Strings(ks)
	var sb strings.Builder
	for _, k := range ks {
		fmt.Fprintf(&sb, "%s=", k)
		canon(&sb, vals[k], map[any]bool{}, 0)
		sb.WriteString(";")
	}
	return sb.String()
}

var reSyntaxHeader = regexp.MustCompile(`^\d+:\d+ \(\d+\)`)

// IsSyntaxError: errors produced by the parser start with "line:col (offset)".
func IsSyntaxError(err error) bool {
	s := err.Error()
	return reSyntaxHeader.MatchString(s) || strings.HasPrefix(s, "max number of expressions") || strings.HasPrefix(s, "E1:") || strings.HasPrefix(s, "正在执行中")
}

// Step guards one observation step.
func step(o *Obs, name string, f func()) bool {
	if o.Panic != "" {
		return false
	}
	defer func() {
		if r := recover(); r != nil {
			o.Panic = harn.PanicSite(r, debug.Stack())
			o.PanicAt = name
		}
	}()
	f()
	return true
}

// Eval runs src on vm with the full observation sequence of the public API.
// rerun: also call RunAfterParsed a second time and observe again.
func Eval(vm *ds.Context, src string, rerun bool) Obs {
	var o Obs
	var err error
	n := 1
	if rerun {
		n = 2
	}
	for i := 0; i < n; i++ {
		if i == 0 {
			// the first evaluation goes through Run, the entry point hosts use; re-runs use RunAfterParsed
			step(&o, "Run", func() { err = vm.Run(src) })
			if o.Panic == "" && err != nil && IsSyntaxError(err) {
				o.Err, o.ParseErr = err.Error(), true
				step(&o, "GetAsmText", func() { _ = vm.GetAsmText() })
				// a host that does not look at the error goes on as usual: none of this may panic
				step(&o, "RunAfterParsed after a rejected input", func() { _ = vm.RunAfterParsed() })
				step(&o, "GetDetailText after a rejected input", func() { _ = vm.GetDetailText() })
				step(&o, "GetAsmText after a rejected input", func() { _ = vm.GetAsmText() })
				return o
			}
		} else {
			step(&o, "RunAfterParsed", func() { err = vm.RunAfterParsed() })
		}
		if o.Panic != "" {
			return o
		}
		if err != nil {
			o.Err = err.Error()
			step(&o, "GetDetailText", func() { _ = vm.GetDetailText() })
			step(&o, "GetAsmText", func() { _ = vm.GetAsmText() })
			continue
		}
		o.Err = ""
		step(&o, "GetDetailText", func() { o.Detail = vm.GetDetailText() })
		step(&o, "GetDetailText#2", func() { _ = vm.GetDetailText() })
		step(&o, "GetAsmText", func() { _ = vm.GetAsmText() })
		step(&o, "Ret.ToString", func() {
			if vm.Ret != nil {
				_ = vm.Ret.ToString()
				_ = vm.Ret.ToRepr()
				o.RetType = int(vm.Ret.TypeId)
			}
		})
		step(&o, "Canon", func() { o.Ret = Canon(vm.Ret) })
		o.Matched, o.Rest = vm.Matched, vm.RestInput
		step(&o, "IsCalculateExists", func() { _ = vm.IsCalculateExists() })
		step(&o, "GetCurSeed", func() { _, _ = vm.GetCurSeed() })
	}
	o.NumOp = int64(vm.NumOpCount)
	return o
}
