#!/bin/bash
# Build the harness against /repo's current working tree (hooks enabled) and run one check.
set -e
cd "$(dirname "$0")"
export GOFLAGS=-mod=mod GOPROXY=off GOSUMDB=off GOTOOLCHAIN=local CGO_ENABLED=0
mkdir -p bin evidence replays
# The repository under test is /repo; VERIF_REPO may point a background run at a snapshot of it instead.
REPO="${VERIF_REPO:-/repo}"
export VERIF_DIR="$PWD"
# builds of concurrently started checks are serialised (they share bin/ and mc/go.sum); the lock is released before a check runs
exec 9>bin/.build.lock; flock 9
# keep the harness' go.sum a superset of the repository's
if [ -f "$REPO/go.sum" ]; then cat "$REPO/go.sum" mc/go.sum 2>/dev/null | sort -u > bin/go.sum.tmp && mv bin/go.sum.tmp mc/go.sum; fi
MODFLAG=""
if [ "$REPO" != "/repo" ]; then
  sed "s#=> /repo#=> $REPO#" mc/go.mod > bin/alt.go.mod; cp mc/go.sum bin/alt.go.sum
  MODFLAG="-modfile=$PWD/bin/alt.go.mod"
fi

build_plain() { (cd mc && go build $MODFLAG -tags verif -o ../bin/check ./cmd/check); }

# C12's concurrent part: valuemap.go with "sync"/"sync/atomic" redirected to the scheduler shim (overlay, /repo untouched)
build_sched() {
  mkdir -p bin/overlay
  sed -e 's#^\t"sync"$#\tsync "github.com/sealdice/dicescript/verifshim/vsync"#' \
      -e 's#^\t"sync/atomic"$#\tatomic "github.com/sealdice/dicescript/verifshim/vatomic"#' "$REPO/valuemap.go" > bin/overlay/valuemap.go
  if ! grep -q 'verifshim/vsync' bin/overlay/valuemap.go || ! grep -q 'verifshim/vatomic' bin/overlay/valuemap.go; then
    echo "MACHINERY ERROR: could not redirect sync imports of $REPO/valuemap.go" >&2; return 2
  fi
  cat > bin/overlay/overlay.json <<JSON
{"Replace": {
 "$REPO/valuemap.go": "$PWD/bin/overlay/valuemap.go",
 "$REPO/verifshim/vsync/vsync.go": "$PWD/mc/shim/vsync/vsync.go",
 "$REPO/verifshim/vatomic/vatomic.go": "$PWD/mc/shim/vatomic/vatomic.go"
}}
JSON
  (cd mc && go build $MODFLAG -tags "verif vshim" -overlay ../bin/overlay/overlay.json -o ../bin/check-sched ./cmd/check)
}

# C11's free-running pass: the same harness built with the race detector
build_race() { (cd mc && CGO_ENABLED=1 go build $MODFLAG -race -tags verif -o ../bin/check-race ./cmd/check); }

if [ "$1" = "--setup" ]; then
  build_plain
  build_sched
  build_race
  echo "setup ok"
  exit 0
fi
ID="$1"; shift
ulimit -c 0
case "$ID" in
  C12) build_sched; exec 9>&-; exec ./bin/check-sched "$ID" "$@" ;;
  C11) build_plain; build_sched; build_race; exec 9>&-; exec ./bin/check "$ID" "$@" ;;
  *)   build_plain; exec 9>&-; exec ./bin/check "$ID" "$@" ;;
esac
