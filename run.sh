#!/bin/bash
# Build the harness against /repo's current working tree (hooks enabled) and run one check.
set -e
cd "$(dirname "$0")"
export GOFLAGS=-mod=mod GOPROXY=off GOSUMDB=off GOTOOLCHAIN=local CGO_ENABLED=0
mkdir -p bin evidence replays
cp -f /repo/go.sum mc/go.sum 2>/dev/null || true
build() {
  (cd mc && go build -tags verif -o ../bin/check ./cmd/check)
}
if [ "$1" = "--setup" ]; then
  build
  echo "setup ok"
  exit 0
fi
build
ID="$1"; shift
ulimit -c 0
exec ./bin/check "$ID" "$@"
